// Exhaustive sweeps over every bit pattern of I9F23 / U9F23 for the math functions
// (thorough tier of C12-C17).  The sweep executes the real function on EVERY pattern of
// the range; logging all 2^32 events is pointless, so an in-process screen decides which
// events are written for the exact (Python) oracle:
//   * every event whose f64-screened error exceeds HALF the property's tolerance
//     (f64 libm error ~2^-52 << tolerance, so no violation can hide behind the screen),
//   * every panic / iteration-limit abort, every Err on an operand where Err needs
//     justification, every Ok on an operand where Err is mandatory,
//   * every event exceeding the C17 iteration bound, plus the arg-max,
//   * a pseudo-random 1-in-2^k sample of ordinary events (cross-validates the screen).
// A final `#sweep` line reports how many patterns were executed.
use drv::*;
use substrate_fixed::transcendental as tr;
use substrate_fixed::transcendental::verif_hooks as hooks;
use substrate_fixed::types::{I9F23, U9F23};

const F: i32 = 23;
const ULP: f64 = 1.0 / 8388608.0;

fn counts_str() -> (String, u64) {
    let c = hooks::counts();
    let tot: u64 = c.iter().enumerate().filter(|(i, _)| *i != hooks::POWI).map(|(_, v)| *v).sum();
    (format!("I:{},{},{},{},{},{},{},{}", c[0], c[1], c[2], c[3], c[4], c[5], c[6], c[7]), tot)
}

enum Out {
    Ok(i64),
    Err,
    Panic(String),
}

fn emit(ev: &mut Ev, op: &str, lay: Lay, x: u128, out: &Out, cs: &str) {
    ev.begin(op, lay);
    ev.arg_s(&lay.name());
    ev.arg(x);
    ev.sep();
    match out {
        Out::Ok(v) => {
            if op == "sin" || op == "cos" || op == "tan" {
                ev.v((*v as u128) & lay.mask())
            } else {
                ev.ok((*v as u128) & lay.mask())
            }
        }
        Out::Err => ev.err(""),
        Out::Panic(p) => ev.p(p),
    }
    ev.raw(cs);
    ev.end();
}

fn main() {
    install_panic_hook();
    let args = Args::parse();
    let func = args.get("fn").expect("--fn").to_string();
    let signed = args.get("ty").unwrap_or("i") == "i";
    let lay = Lay::new(signed, 32, 23);
    let sample_mask: u64 = (1u64 << args.get_u64("sample-log2", 15)) - 1;
    // pattern range [lo, hi) in the signed (or unsigned) integer order, split into shards
    let (full_lo, full_hi): (i64, i64) = match (func.as_str(), signed) {
        ("sin", _) | ("cos", _) => (-(200i64 << F), (200i64 << F) + 1),
        ("tan", _) => (-(100i64 << F), (100i64 << F) + 1),
        (_, true) => (i32::MIN as i64, i32::MAX as i64 + 1),
        (_, false) => (0, u32::MAX as i64 + 1),
    };
    let span = full_hi - full_lo;
    let lo = full_lo + span * args.shard as i64 / args.nshards as i64;
    let hi = full_lo + span * (args.shard as i64 + 1) / args.nshards as i64;
    let bound = 4 * 32 + 64;
    for s in 0..hooks::N_SITES {
        hooks::set_limit(s, 16 * bound);
    }
    let mut ev = Ev::new();
    let mut rng = Rng::new(args.seed ^ lo as u64);
    let mut scanned: u64 = 0;
    let mut logged: u64 = 0;
    let mut max_iter: (u64, i64) = (0, 0);
    let mut p = lo;
    while p < hi {
        let bits: u128 = (p as u128) & 0xFFFF_FFFF;
        let xv: f64 = p as f64 * ULP;
        hooks::reset();
        let mut out = Out::Err;
        let pan = guard(&mut || {
            out = if signed {
                let x = I9F23::from_bits(p as i32);
                match func.as_str() {
                    "sqrt" => tr::sqrt::<I9F23, I9F23>(x).map(|r| r.to_bits() as i64).map(Out::Ok).unwrap_or(Out::Err),
                    "log2" => tr::log2::<I9F23, I9F23>(x).map(|r| r.to_bits() as i64).map(Out::Ok).unwrap_or(Out::Err),
                    "ln" => tr::ln::<I9F23, I9F23>(x).map(|r| r.to_bits() as i64).map(Out::Ok).unwrap_or(Out::Err),
                    "exp" => tr::exp::<I9F23, I9F23>(x).map(|r| r.to_bits() as i64).map(Out::Ok).unwrap_or(Out::Err),
                    "sin" => Out::Ok(tr::sin(x).to_bits() as i64),
                    "cos" => Out::Ok(tr::cos(x).to_bits() as i64),
                    "tan" => Out::Ok(tr::tan(x).to_bits() as i64),
                    _ => panic!("fn"),
                }
            } else {
                let x = U9F23::from_bits(p as u32);
                tr::sqrt::<U9F23, U9F23>(x).map(|r| r.to_bits() as i64).map(Out::Ok).unwrap_or(Out::Err)
            };
        });
        if let Some(pn) = pan {
            out = Out::Panic(pn);
        }
        scanned += 1;
        let (cs, tot) = counts_str();
        if tot > max_iter.0 {
            max_iter = (tot, p);
        }
        // ---- screen
        let mut log = tot > bound;
        match &out {
            Out::Panic(_) => log = true,
            Out::Err => {
                log |= match func.as_str() {
                    "sqrt" => p >= 0,          // Err on a non-negative operand needs justification
                    "log2" | "ln" => p > 0,
                    _ => false,                // exp: Err is never judged (only Ok values are)
                };
            }
            Out::Ok(r) => {
                let rv = *r as f64 * ULP;
                match func.as_str() {
                    "sqrt" => {
                        if p < 0 {
                            log = true;
                        } else {
                            // exact integer bracket (R-4)^2 <= X * 2^23 <= (R+4)^2, screened at 2 ulp
                            let xx = (p as u128) << F;
                            let r = *r as i128;
                            let lo2 = if r - 2 > 0 { ((r - 2) * (r - 2)) as u128 } else { 0 };
                            let hi2 = ((r + 2) * (r + 2)) as u128;
                            log |= r < 0 || !(lo2 <= xx && xx <= hi2);
                        }
                    }
                    "log2" => {
                        if p <= 0 {
                            log = true;
                        } else {
                            log |= (rv - xv.log2()).abs() > 4.0 * ULP;
                            log |= (p as u64).is_power_of_two();
                        }
                    }
                    "ln" => {
                        if p <= 0 {
                            log = true;
                        } else {
                            let t = xv.ln();
                            log |= (rv - t).abs() > 0.5 * (t.abs() / 8388608.0 + 8.0 * ULP);
                        }
                    }
                    "exp" => {
                        let t = xv.exp();
                        log |= (rv - t).abs() > 0.5 * (t / 1048576.0 + 64.0 * ULP);
                    }
                    "sin" | "cos" => {
                        let t = if func == "sin" { xv.sin() } else { xv.cos() };
                        log |= (rv - t).abs() > 0.5 / 65536.0 || rv.abs() > 1.0 + 0.5 / 65536.0;
                    }
                    "tan" => {
                        let t = xv.tan();
                        if t.abs() <= 64.5 {
                            log |= (rv - t).abs() > 0.5 * (1.0 + t * t) / 16384.0;
                        }
                    }
                    _ => {}
                }
            }
        }
        if !log && (rng.next() & sample_mask) == 0 {
            log = true;
        }
        if log {
            emit(&mut ev, &func, lay, bits, &out, &cs);
            logged += 1;
        }
        p += 1;
    }
    // the arg-max of the iteration count is always shown
    {
        let p = max_iter.1;
        ev.begin2("#sweep", &func);
        ev.arg_s(&format!("ty={} scanned={} logged={} lo={} hi={} max_iterations={} at={:x}", if signed { "i32.23" } else { "u32.23" },
                          scanned, logged, lo, hi, max_iter.0, (p as u128) & 0xFFFF_FFFF));
        ev.end();
    }
}
