//! Runtime-selected format specifications applied through trait objects, so the
//! per-layout cost is a vtable and not ~200 format call sites.
use core::fmt::{Binary, Debug, Display, LowerHex, Octal, UpperHex};

pub struct Fmts<'a> {
    pub d: &'a dyn Display,
    pub g: &'a dyn Debug,
    pub b: &'a dyn Binary,
    pub o: &'a dyn Octal,
    pub x: &'a dyn LowerHex,
    pub u: &'a dyn UpperHex,
}

/// flag sets: index -> literal flags in the format string
pub const FLAGSETS: [&str; 10] = ["", "+", "#", "0", "+#0", "<", "^", ">", "*^", "*<+#"];

macro_rules! with_wp {
    ($fl:literal, $ty:literal, $v:expr, $w:expr, $p:expr) => {
        match ($w, $p) {
            (None, None) => format!(concat!("{:", $fl, $ty, "}"), $v),
            (Some(w), None) => format!(concat!("{:", $fl, "w$", $ty, "}"), $v, w = w),
            (None, Some(p)) => format!(concat!("{:", $fl, ".p$", $ty, "}"), $v, p = p),
            (Some(w), Some(p)) => format!(concat!("{:", $fl, "w$.p$", $ty, "}"), $v, w = w, p = p),
        }
    };
}

macro_rules! with_flags {
    ($fs:expr, $ty:literal, $v:expr, $w:expr, $p:expr) => {
        match $fs {
            0 => with_wp!("", $ty, $v, $w, $p),
            1 => with_wp!("+", $ty, $v, $w, $p),
            2 => with_wp!("#", $ty, $v, $w, $p),
            3 => with_wp!("0", $ty, $v, $w, $p),
            4 => with_wp!("+#0", $ty, $v, $w, $p),
            5 => with_wp!("<", $ty, $v, $w, $p),
            6 => with_wp!("^", $ty, $v, $w, $p),
            7 => with_wp!(">", $ty, $v, $w, $p),
            8 => with_wp!("*^", $ty, $v, $w, $p),
            _ => with_wp!("*<+#", $ty, $v, $w, $p),
        }
    };
}

/// kind: 0 Display, 1 Debug, 2 Binary, 3 Octal, 4 LowerHex, 5 UpperHex
pub fn fmt_one(f: &Fmts, kind: u8, flagset: u8, w: Option<usize>, p: Option<usize>) -> String {
    match kind {
        0 => with_flags!(flagset, "", f.d, w, p),
        1 => with_flags!(flagset, "?", f.g, w, p),
        2 => with_flags!(flagset, "b", f.b, w, p),
        3 => with_flags!(flagset, "o", f.o, w, p),
        4 => with_flags!(flagset, "x", f.x, w, p),
        _ => with_flags!(flagset, "X", f.u, w, p),
    }
}
