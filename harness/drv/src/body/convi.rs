// Driver body: fixed <-> primitive integer conversions and comparisons
// (C04 integer part, C03 integer part; corpus for C11).
use drv::*;
use substrate_fixed::traits::{FromFixed, ToFixed};

fn int_ev<F, I>(ev: &mut Ev, lay: Lay, a: u128, ib: u128)
where
    F: Ext + PartialOrd<I> + PartialEq<I>,
    F::Bits: BitsIo,
    I: BitsIo + ToFixed + FromFixed,
{
    let x: F = fb(a);
    let i: I = I::from_u128(ib);
    ev.begin("fi", lay);
    ev.arg_s(if I::SIGNED { "i" } else { "u" });
    ev.arg(I::NBITS as u128);
    ev.arg(a);
    ev.arg(ib);
    ev.sep();
    // integer -> fixed
    ev.rec_v(&mut || tb(F::from_num(i)));
    ev.rec_s(&mut || tbs(F::checked_from_num(i)));
    ev.rec_v(&mut || tb(F::saturating_from_num(i)));
    ev.rec_v(&mut || tb(F::wrapping_from_num(i)));
    ev.rec_o(&mut || tbo(F::overflowing_from_num(i)));
    // the same through the ToFixed spelling
    ev.rec_s(&mut || tbs(i.checked_to_fixed::<F>()));
    ev.rec_o(&mut || tbo(i.overflowing_to_fixed::<F>()));
    // fixed -> integer
    ev.rec_v(&mut || x.to_num::<I>().to_u128());
    ev.rec_s(&mut || x.checked_to_num::<I>().map(|v| v.to_u128()));
    ev.rec_v(&mut || x.saturating_to_num::<I>().to_u128());
    ev.rec_v(&mut || x.wrapping_to_num::<I>().to_u128());
    ev.rec_o(&mut || {
        let (v, o) = x.overflowing_to_num::<I>();
        (v.to_u128(), o)
    });
    ev.rec_s(&mut || I::checked_from_fixed(x).map(|v| v.to_u128()));
    // comparisons, both operand orders
    rec_ord(ev, &mut || ord7(&x, &i));
    let m0 = if core::mem::size_of::<I>() * 8 == 64 && core::any::type_name::<I>().ends_with("size") { 0 } else { I::NBITS };
    rec_ord(ev, &mut || x.x_rev_cmp_int(I::SIGNED, m0, ib));
    ev.end();
    // the same conversions through the az cast traits (feature "az", src/cast.rs)
    ev.begin("zi", lay);
    ev.arg_s(if I::SIGNED { "i" } else { "u" });
    ev.arg(I::NBITS as u128);
    ev.arg(a);
    ev.arg(ib);
    ev.sep();
    for form in 0..6u8 {
        rec_az(ev, form, &mut || F::az_from_int(form, I::SIGNED, m0, ib));
    }
    for form in 0..6u8 {
        rec_az(ev, form, &mut || x.az_to_int(form, I::SIGNED, m0));
    }
    ev.end();
}

fn dispatch<F>(ev: &mut Ev, lay: Lay, isigned: bool, m: u32, a: u128, ib: u128)
where
    F: Ext,
    F::Bits: BitsIo,
{
    match (isigned, m) {
        (true, 8) => int_ev::<F, i8>(ev, lay, a, ib),
        (true, 16) => int_ev::<F, i16>(ev, lay, a, ib),
        (true, 32) => int_ev::<F, i32>(ev, lay, a, ib),
        (true, 64) => int_ev::<F, i64>(ev, lay, a, ib),
        (true, 128) => int_ev::<F, i128>(ev, lay, a, ib),
        (true, 0) => int_ev::<F, isize>(ev, lay, a, ib),
        (false, 8) => int_ev::<F, u8>(ev, lay, a, ib),
        (false, 16) => int_ev::<F, u16>(ev, lay, a, ib),
        (false, 32) => int_ev::<F, u32>(ev, lay, a, ib),
        (false, 64) => int_ev::<F, u64>(ev, lay, a, ib),
        (false, 128) => int_ev::<F, u128>(ev, lay, a, ib),
        (false, 0) => int_ev::<F, usize>(ev, lay, a, ib),
        _ => panic!("int type"),
    }
}

fn bool_ev<F: Ext>(ev: &mut Ev, lay: Lay, b: bool)
where
    F::Bits: BitsIo,
{
    ev.begin("fb", lay);
    ev.arg(b as u128);
    ev.sep();
    ev.rec_v(&mut || tb(F::from_num(b)));
    ev.rec_s(&mut || tbs(F::checked_from_num(b)));
    ev.rec_v(&mut || tb(F::saturating_from_num(b)));
    ev.rec_v(&mut || tb(F::wrapping_from_num(b)));
    ev.rec_o(&mut || tbo(F::overflowing_from_num(b)));
    ev.end();
    ev.begin("zb", lay);
    ev.arg(b as u128);
    ev.sep();
    for form in 0..6u8 {
        rec_az(ev, form, &mut || F::az_from_bool(form, b));
    }
    ev.end();
}

fn same_ev<F: Ext>(ev: &mut Ev, lay: Lay, a: u128, b: u128)
where
    F::Bits: BitsIo,
{
    use core::hash::Hash;
    let x: F = fb(a);
    let y: F = fb(b);
    ev.begin("fs", lay);
    ev.arg(a);
    ev.arg(b);
    ev.sep();
    rec_ord(ev, &mut || ord7(&x, &y));
    rec_ord(ev, &mut || {
        let c = match x.cmp(&y) {
            core::cmp::Ordering::Less => b'l',
            core::cmp::Ordering::Equal => b'e',
            core::cmp::Ordering::Greater => b'g',
        };
        let m = |v: bool| if v { b'1' } else { b'0' };
        [c, m(x.max(y) == if x >= y { x } else { y }), m(x.min(y) == if x <= y { x } else { y }), b'-', b'-', b'-', b'-']
    });
    let mut h1 = RecHasher::default();
    let mut h2 = RecHasher::default();
    let p = guard(&mut || {
        x.hash(&mut h1);
        x.to_bits().hash(&mut h2);
    });
    match p {
        None => {
            ev.t(&h1.0);
            ev.t(&h2.0);
        }
        Some(p) => ev.p(&p),
    }
    ev.end();
}

const ITYPES: [(bool, u32); 12] = [
    (true, 8), (true, 16), (true, 32), (true, 64), (true, 128), (true, 0),
    (false, 8), (false, 16), (false, 32), (false, 64), (false, 128), (false, 0),
];

fn drive<F: Ext>(ev: &mut Ev, args: &Args, lay: Lay)
where
    F::Bits: BitsIo,
{
    let mut rng = args.rng_for(lay, 4);
    bool_ev::<F>(ev, lay, false);
    bool_ev::<F>(ev, lay, true);
    for _ in 0..args.n {
        let a = gen_bits(&mut rng, lay);
        let b = match rng.below(4) {
            0 => a,
            1 => a.wrapping_add(rng.range(-2, 2) as i128 as u128) & lay.mask(),
            2 => a ^ (1u128 << (lay.n - 1)),
            _ => gen_bits(&mut rng, lay),
        };
        same_ev::<F>(ev, lay, a, b);
        for &(isigned, m0) in ITYPES.iter() {
            let m = if m0 == 0 { 64 } else { m0 };
            let a = if rng.chance(1, 2) { gen_fixed_for_int(&mut rng, lay, isigned, m) } else { gen_bits(&mut rng, lay) };
            let ib = gen_int_for(&mut rng, lay, isigned, m, a);
            dispatch::<F>(ev, lay, isigned, m0, a, ib);
        }
    }
}

fn main() {
    install_panic_hook();
    let args = Args::parse();
    let mut ev = Ev::new();
    if args.stdin {
        for l in read_stdin_lines() {
            let want = parse_lay(&l[1]);
            macro_rules! one {
                ($fam:ident, $u:ident, $s:expr, $n:expr, $f:expr) => {
                    if (Lay::new($s, $n, $f)) == want {
                        if l[0] == "fb" || l[0] == "zb" {
                            bool_ev::<$fam<$u>>(&mut ev, want, parse_hex(&l[2]) != 0);
                        } else if l[0] == "fs" {
                            same_ev::<$fam<$u>>(&mut ev, want, parse_hex(&l[2]), parse_hex(&l[3]));
                        } else {
                            // isize/usize are logged with their true width (64); replay as i64/u64-width
                            // pointer types cannot be told apart from the log, so replay both spellings
                            let isigned = l[2] == "i";
                            let m: u32 = parse_hex(&l[3]) as u32;
                            dispatch::<$fam<$u>>(&mut ev, want, isigned, m, parse_hex(&l[4]), parse_hex(&l[5]));
                            if m == 64 {
                                dispatch::<$fam<$u>>(&mut ev, want, isigned, 0, parse_hex(&l[4]), parse_hex(&l[5]));
                            }
                        }
                    }
                };
            }
            layouts!(one);
        }
        return;
    }
    let mut idx = 0u64;
    macro_rules! one {
        ($fam:ident, $u:ident, $s:expr, $n:expr, $f:expr) => {
            let lay = Lay::new($s, $n, $f);
            if args.want(idx, lay) {
                drive::<$fam<$u>>(&mut ev, &args, lay);
            }
            idx += 1;
        };
    }
    layouts!(one);
    let _ = idx;
}
