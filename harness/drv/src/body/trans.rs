// Driver body: math functions (C12-C17; corpus for C11).  The bin stub defines
// `layouts_s!` (signed types, S = D), `layouts_u!` (unsigned, sqrt only) and
// `pairs!` (S != D).  Every call is logged with its outcome and the per-site
// loop iteration counts read from the cfg(substrate_fixed_verif) hook.
use core::ops::{AddAssign, BitOrAssign, ShlAssign};
use drv::*;
use substrate_fixed::traits::{LossyFrom, ToFixed};
use substrate_fixed::transcendental as tr;
use substrate_fixed::transcendental::verif_hooks as hooks;
use substrate_fixed::types::{I9F23, I9F55, U0F128};

fn counts_tok(ev: &mut Ev) {
    let c = hooks::counts();
    ev.raw(&format!("I:{},{},{},{},{},{},{},{}", c[0], c[1], c[2], c[3], c[4], c[5], c[6], c[7]));
}

fn rec_res<D: Fixed, E>(ev: &mut Ev, f: &mut dyn FnMut() -> Result<D, E>)
where
    D::Bits: BitsIo,
{
    hooks::reset();
    let mut r: Option<Result<u128, ()>> = None;
    let p = guard(&mut || r = Some(f().map(tb).map_err(|_| ())));
    match p {
        None => match r.unwrap() {
            Ok(v) => ev.ok(v),
            Err(()) => ev.err(""),
        },
        Some(p) => ev.p(&p),
    }
    counts_tok(ev);
}

fn rec_val<D: Fixed>(ev: &mut Ev, f: &mut dyn FnMut() -> D)
where
    D::Bits: BitsIo,
{
    hooks::reset();
    let mut r = 0u128;
    let p = guard(&mut || r = tb(f()));
    match p {
        None => ev.v(r),
        Some(p) => ev.p(&p),
    }
    counts_tok(ev);
}

fn set_limits(width: u32, powi_limit: u64) {
    let lim = 16 * (4 * width as u64 + 64);
    for s in 0..hooks::N_SITES {
        hooks::set_limit(s, if s == hooks::POWI { powi_limit } else { lim });
    }
}

static mut FNS: Option<Vec<String>> = None;

/// `--fns a,b,c` restricts the workload to some functions (operand streams stay identical)
fn want_fn(op: &str) -> bool {
    #[allow(static_mut_refs)]
    unsafe {
        match &FNS {
            None => true,
            Some(v) => v.iter().any(|f| f == op),
        }
    }
}

fn head(ev: &mut Ev, op: &str, ls: Lay, ld: Lay, x: u128) {
    ev.begin(op, ls);
    ev.arg_s(&ld.name());
    ev.arg(x);
}

// ---------------------------------------------------------------- per-function events

fn ev_sqrt<S, D>(ev: &mut Ev, ls: Lay, ld: Lay, x: u128)
where
    S: Fixed + PartialOrd<I9F23>,
    D: Fixed + PartialOrd<I9F23> + From<S>,
    S::Bits: BitsIo,
    D::Bits: BitsIo,
{
    if !want_fn("sqrt") {
        return;
    }
    head(ev, "sqrt", ls, ld, x);
    ev.sep();
    rec_res::<D, _>(ev, &mut || tr::sqrt::<S, D>(fb(x)));
    ev.end();
}

fn ev_logs<S, D>(ev: &mut Ev, ls: Lay, ld: Lay, op: &str, x: u128, y: u128)
where
    S: FixedSigned + PartialOrd<I9F23>,
    D: FixedSigned + PartialOrd<I9F23> + From<S> + From<I9F23>,
    D::Bits: Copy + ToFixed + AddAssign + BitOrAssign + ShlAssign + BitsIo,
    S::Bits: BitsIo,
{
    if !want_fn(op) {
        return;
    }
    head(ev, op, ls, ld, x);
    if op == "pow" || op == "powi" {
        ev.arg(y);
    }
    ev.sep();
    match op {
        "log2" => rec_res::<D, _>(ev, &mut || tr::log2::<S, D>(fb(x))),
        "ln" => rec_res::<D, _>(ev, &mut || tr::ln::<S, D>(fb(x))),
        "exp" => rec_res::<D, _>(ev, &mut || tr::exp::<S, D>(fb(x))),
        "pow" => rec_res::<D, _>(ev, &mut || tr::pow::<S, D>(fb(x), fb(y))),
        "powi" => {
            let n = y as u32 as i32;
            rec_res::<D, _>(ev, &mut || tr::powi::<S, D>(fb(x), n));
            if n < 0 && n != i32::MIN {
                rec_res::<D, _>(ev, &mut || tr::powi::<S, D>(fb(x), -n));
            } else {
                ev.na();
                ev.na();
            }
        }
        _ => panic!("op"),
    }
    ev.end();
}

fn ev_trig<T>(ev: &mut Ev, l: Lay, op: &str, x: u128)
where
    T: FixedSigned + PartialOrd<I9F23> + LossyFrom<I9F23> + LossyFrom<I9F55> + LossyFrom<U0F128>,
    T::Bits: BitsIo,
{
    if !want_fn(op) {
        return;
    }
    head(ev, op, l, l, x);
    ev.sep();
    match op {
        "sin" => rec_val::<T>(ev, &mut || tr::sin::<T>(fb(x))),
        "cos" => rec_val::<T>(ev, &mut || tr::cos::<T>(fb(x))),
        "tan" => rec_val::<T>(ev, &mut || tr::tan::<T>(fb(x))),
        _ => panic!("op"),
    }
    ev.end();
}

// ---------------------------------------------------------------- workloads

const POWI_EXPS: [i32; 24] = [
    i32::MIN, i32::MIN + 1, -65536, -1025, -64, -33, -17, -8, -5, -3, -2, -1, 0, 1, 2, 3, 4, 7, 16, 31, 100, 1000, 65537, i32::MAX,
];

fn powi_base(rng: &mut Rng, s: Lay) -> u128 {
    let one = 1u128 << s.f;
    let v = match rng.below(18) {
        // any bit pattern (boundary / structured / limb-structured / random): the running power overflows or wraps
        16 => gen_bits(rng, s),
        17 => gen_limb_structured(rng, s),
        14 | 15 => {
            // tiny and small power-of-two magnitudes 2^-k (running powers underflow to exactly 0)
            let k = 1 + rng.below(s.f as u64) as u32;
            let m = one >> k;
            if s.signed && rng.chance(1, 2) { m.wrapping_neg() } else { m }
        }
        0 => 0,
        1 => one,
        2 => one.wrapping_neg(),
        3 => 1,
        4 => 1u128.wrapping_neg(),
        5 => one + 1 + rng.below(3) as u128,
        6 => one - 1 - rng.below(3) as u128,
        7 => (one + rng.below(4) as u128).wrapping_neg(),
        8 => one << 1,
        9 => (one << 1).wrapping_neg(),
        10 => one >> 1,
        11 => s.max_bits(),
        12 => s.min_bits(),
        _ => {
            // near one: 1 +- 2^-k, or a moderate value
            if rng.chance(1, 2) {
                let k = 1 + rng.below(s.f as u64 - 1) as u32;
                if rng.chance(1, 2) { one + (one >> k) } else { one - (one >> k) }
            } else {
                let len = s.f + rng.below(5) as u32;
                (rng.next128() & mask(len)) | (1u128 << (len - 1))
            }
        }
    };
    (if !s.signed && s.sext(v) < 0 && v > s.mask() { one } else { v }) & s.mask()
}

fn drive_signed<S, D>(ev: &mut Ev, args: &Args, ls: Lay, ld: Lay)
where
    S: FixedSigned + PartialOrd<I9F23>,
    D: FixedSigned + PartialOrd<I9F23> + From<S> + From<I9F23>,
    D::Bits: Copy + ToFixed + AddAssign + BitOrAssign + ShlAssign + BitsIo,
    S::Bits: BitsIo,
{
    set_limits(ld.n, args.get_u64("powi-limit", 100_000));
    let mut rng = args.rng_for(ls, 12 + ld.id());
    sqrt_two_cycle_block::<S, D>(ev, ls, ld);
    for it in 0..args.n {
        let x = gen_trans_operand(&mut rng, ls, ld, 0);
        ev_sqrt::<S, D>(ev, ls, ld, x);
        let x = gen_trans_operand(&mut rng, ls, ld, 0);
        ev_logs::<S, D>(ev, ls, ld, "log2", x, 0);
        ev_logs::<S, D>(ev, ls, ld, "ln", x, 0);
        let x = gen_trans_operand(&mut rng, ls, ld, 1);
        ev_logs::<S, D>(ev, ls, ld, "exp", x, 0);
        // pow: base general-positive (sometimes 0 / negative), exponent an exp-style argument scaled down
        let x = match rng.below(9) {
            0 => 0,
            1 => gen_bits(&mut rng, ls),
            2 => {
                // bases in (0, 1]: 1, 1 - 2^-k, 2^-k
                let one = 1u128 << ls.f;
                let k = 1 + rng.below(ls.f as u64 - 1) as u32;
                *rng.pick(&[one, one - (one >> k), one >> k, one >> 1])
            }
            _ => gen_trans_operand(&mut rng, ls, ld, 0),
        };
        let y = match rng.below(9) {
            8 => {
                // whole-number exponents of every size (with the base class below this reaches bases <= 1)
                let k = *rng.pick(&[2i64, 3, 10, 100, 250, 251, 1000, 65536, -2, -3, -250, -1000]);
                ((k as i128 as u128) << ls.f) & ls.mask()
            }
            0 => 0,
            1 => 1u128 << ls.f,
            2 => (rng.range(-6, 6) as i128 as u128) << ls.f & ls.mask(),
            3 => (1u128 << ls.f) >> 1,
            4 => gen_bits(&mut rng, ls),
            _ => {
                // |y| up to ~16 with random fraction
                let v = rng.next128() & mask(ls.f + 4);
                if rng.chance(1, 2) { v.wrapping_neg() & ls.mask() } else { v }
            }
        };
        // directed pair class: the intermediate product y * ln x at the edge of D's range and at whole multiples of
        // 2^I_D (where a wrapped product would land back inside exp's domain): x = e^k, y = m * 2^(I_D - 1) / k +- small
        let (x, y) = if rng.chance(1, 8) && ls.f <= 120 {
            let k = 1 + rng.below(5) as u32;
            let m = 1 + rng.below(4) as u128;
            let int_d = ld.n - ld.f - 1;
            let xb = EK_120[(k - 1) as usize] >> (120 - ls.f);
            let sm = rng.range(-4 << 8, 4 << 8);
            let small_mag = ((sm.unsigned_abs() as u128) << ls.f) >> 8;
            let small = if sm < 0 { small_mag.wrapping_neg() } else { small_mag };
            let yb = (((m << (int_d - 1).min(100)) << ls.f.min(20)) / k as u128) << (ls.f - ls.f.min(20));
            let ymag = yb.wrapping_add(small);
            if xb <= ls.max_bits() && ymag <= ls.max_bits() && int_d + ls.f < 126 {
                (xb, if rng.chance(1, 2) { ymag } else { ymag.wrapping_neg() & ls.mask() })
            } else {
                (x, y)
            }
        } else {
            (x, y)
        };
        ev_logs::<S, D>(ev, ls, ld, "pow", x, y);
        let x = powi_base(&mut rng, ls);
        let n = if it % 3 == 0 { rng.range(-40, 40) as i32 } else { POWI_EXPS[rng.below(POWI_EXPS.len() as u64) as usize] };
        ev_logs::<S, D>(ev, ls, ld, "powi", x, n as u32 as u128);
    }
    // pow with a base next to one and a power-of-two exponent of every size (systematic): x = 1 +- j ulp for j in {1, 2, 3, 5, 256}
    // and j around 2^(F-24), 2^(F-23) (the resolution of the module's I9F23 constants seen from a finer type), y = +-2^m for every m
    // that fits.  ln(1 + d) ~ d is where pow's error is amplified by y, and where a comparison against the constant ONE / TWO
    // that loses the operand's extra fractional bits changes the branch taken (seeded change C15-H).
    {
        let one = 1u128 << ls.f;
        let mut js: Vec<u128> = vec![1, 2, 3, 5, 256];
        for e in [24u32, 23].iter() {
            if ls.f > *e + 1 {
                let c = 1u128 << (ls.f - *e);
                js.extend_from_slice(&[c - 1, c, c + 1, c >> 1]);
            }
        }
        let ib = ls.n - ls.f - ls.signed as u32;
        for &j in js.iter() {
            for &neg in [false, true].iter() {
                let x = if neg { one.wrapping_sub(j) } else { one.wrapping_add(j) };
                if x > ls.max_bits() {
                    continue;
                }
                for m in 0..ib.min(64) {
                    let y = (1u128 << m) << ls.f;
                    if y > ls.max_bits() {
                        break;
                    }
                    ev_logs::<S, D>(ev, ls, ld, "pow", x, y);
                    if ls.signed && m % 3 == 0 {
                        ev_logs::<S, D>(ev, ls, ld, "pow", x, y.wrapping_neg() & ls.mask());
                    }
                }
            }
        }
    }
    // powi over the WHOLE i32 exponent range (the property quantifies over all 2^32 exponents; the grid above has 24 constants
    // and |n| <= 40): random exponents and +-2^k, +-(2^k +- 1) for every k, with bases whose running power leaves the range after
    // at most `width` multiplications (|x| >= 2, so the call is cheap whatever |n| is) or is zero.  Separate PRNG stream.
    let mut rng2 = args.rng_for(ls, 121 + ld.id());
    let one = 1u128 << ls.f;
    for it in 0..args.n / 2 {
        let n: i32 = match it % 4 {
            0 => rng2.next() as u32 as i32,
            1 => {
                let k = rng2.below(32) as u32;
                let v = (1u32 << k).wrapping_add(rng2.range(-1, 1) as i32 as u32) as i32;
                if rng2.chance(1, 2) { v } else { v.wrapping_neg() }
            }
            2 => rng2.range(-70000, 70000) as i32,
            _ => (rng2.next() as u32 as i32) >> rng2.below(24),
        };
        let x = match rng2.below(6) {
            0 => 0,
            1 => one << 1,
            2 if ls.signed => (one << 1).wrapping_neg() & ls.mask(),
            3 => ls.max_bits(),
            4 if ls.signed => ls.min_bits(),
            _ => {
                // |x| in [2, 2^int): random magnitude, random sign
                let ib = ls.n - ls.f - ls.signed as u32;
                let len = ls.f + 2 + rng2.below((ib.max(2) - 1) as u64) as u32;
                let v = ((rng2.next128() & mask(len)) | (1u128 << (len - 1))) & ls.max_bits();
                if ls.signed && rng2.chance(1, 2) { v.wrapping_neg() & ls.mask() } else { v }
            }
        };
        ev_logs::<S, D>(ev, ls, ld, "powi", x, n as u32 as u128);
    }
}

fn drive_trig<T>(ev: &mut Ev, args: &Args, l: Lay)
where
    T: FixedSigned + PartialOrd<I9F23> + LossyFrom<I9F23> + LossyFrom<I9F55> + LossyFrom<U0F128>,
    T::Bits: BitsIo,
{
    set_limits(l.n, args.get_u64("powi-limit", 100_000));
    let mut rng = args.rng_for(l, 16);
    let big = args.get_u64("big-angles", 1) == 1;
    for it in 0..args.n {
        let x = gen_trans_operand(&mut rng, l, l, 2);
        ev_trig::<T>(ev, l, "sin", x);
        ev_trig::<T>(ev, l, "cos", x);
        let x = gen_trans_operand(&mut rng, l, l, 3);
        ev_trig::<T>(ev, l, "tan", x);
        if big && it % 4 == 0 {
            // magnitudes beyond the accuracy domain: only totality-of-work (C17) is judged there
            let x = gen_trans_operand(&mut rng, l, l, 4);
            ev_trig::<T>(ev, l, "sin", x);
            ev_trig::<T>(ev, l, "cos", x);
            ev_trig::<T>(ev, l, "tan", x);
        }
    }
    // the edge of tan's domain, approached from inside in fine steps at every pole (systematic)
    for x in tan_edge_block(l) {
        ev_trig::<T>(ev, l, "tan", x);
    }
}

/// Systematic sqrt operands on which a TRUNCATING Newton iteration does not settle on a fixed point but two-cycles
/// {s, s+1}: x = (k/2)^2 +- k ulp (x*2^F + 1 a perfect square), and the operands below one whose reciprocal has that
/// form, x = floor(2^(2j) / k^2) +- 1 ulp (4/9, 4/25, 1/9, 16/49 ...).  One or two such operands exist per layout;
/// random / boundary classes hit them with p ~ 2^-60 (seeded changes C13-E, C13-F, C17-E).
fn sqrt_two_cycle_block<S, D>(ev: &mut Ev, ls: Lay, ld: Lay)
where
    S: Fixed + PartialOrd<I9F23>,
    D: Fixed + PartialOrd<I9F23> + From<S>,
    S::Bits: BitsIo,
    D::Bits: BitsIo,
{
    let f = ls.f;
    let maxb = ls.max_bits();
    for k in 2u128..=48 {
        // (k/2)^2 +- k ulp
        if let Some(sq) = (k * k).checked_shl(f).map(|v| v >> 2) {
            if (k * k) >> 2 < (1u128 << (ls.n - f - ls.signed as u32).min(100)) {
                for x in [sq.wrapping_add(k), sq.wrapping_sub(k)].iter() {
                    if *x <= maxb {
                        ev_sqrt::<S, D>(ev, ls, ld, *x);
                    }
                }
            }
        }
        // reciprocals 2^(2j) / k^2 < 1, +- 1 ulp
        for j in 0u32..=3 {
            if k * k <= (1u128 << (2 * j)) || f + 2 * j >= 127 {
                continue;
            }
            let q = (1u128 << (f + 2 * j)) / (k * k);
            for d in [0u128, 1, 1u128.wrapping_neg()].iter() {
                let x = q.wrapping_add(*d);
                if x <= maxb {
                    ev_sqrt::<S, D>(ev, ls, ld, x);
                }
            }
        }
    }
}

fn drive_unsigned<S, D>(ev: &mut Ev, args: &Args, ls: Lay, ld: Lay)
where
    S: Fixed + PartialOrd<I9F23>,
    D: Fixed + PartialOrd<I9F23> + From<S>,
    S::Bits: BitsIo,
    D::Bits: BitsIo,
{
    set_limits(ld.n, args.get_u64("powi-limit", 100_000));
    let mut rng = args.rng_for(ls, 13 + ld.id());
    sqrt_two_cycle_block::<S, D>(ev, ls, ld);
    for _ in 0..(3 * args.n) {
        let x = gen_trans_operand(&mut rng, ls, ld, 0);
        ev_sqrt::<S, D>(ev, ls, ld, x);
    }
}

fn main() {
    install_panic_hook();
    let args = Args::parse();
    if let Some(f) = args.get("fns") {
        unsafe {
            FNS = Some(f.split(',').map(|s| s.to_string()).collect());
        }
    }
    let mut ev = Ev::new();
    if args.stdin {
        let lines = read_stdin_lines();
        for l in lines.iter() {
            let ws = parse_lay(&l[1]);
            let wd = parse_lay(&l[2]);
            let x = parse_hex(&l[3]);
            let y = l.get(4).map(|s| parse_hex(s)).unwrap_or(0);
            let op = l[0].as_str();
            set_limits(wd.n, args.get_u64("powi-limit", 100_000));
            macro_rules! one_s {
                ($fam:ident, $u:ident, $s:expr, $n:expr, $f:expr) => {
                    if Lay::new($s, $n, $f) == ws && ws == wd {
                        match op {
                            "sqrt" => ev_sqrt::<$fam<$u>, $fam<$u>>(&mut ev, ws, wd, x),
                            "sin" | "cos" | "tan" => ev_trig::<$fam<$u>>(&mut ev, ws, op, x),
                            _ => ev_logs::<$fam<$u>, $fam<$u>>(&mut ev, ws, wd, op, x, y),
                        }
                    }
                };
            }
            layouts_s!(one_s);
            macro_rules! one_u {
                ($fam:ident, $u:ident, $s:expr, $n:expr, $f:expr) => {
                    if Lay::new($s, $n, $f) == ws && ws == wd && op == "sqrt" {
                        ev_sqrt::<$fam<$u>, $fam<$u>>(&mut ev, ws, wd, x);
                    }
                };
            }
            layouts_u!(one_u);
            macro_rules! pair_replay {
                (true, $S:ty, $D:ty) => {
                    match op {
                        "sqrt" => ev_sqrt::<$S, $D>(&mut ev, ws, wd, x),
                        _ => ev_logs::<$S, $D>(&mut ev, ws, wd, op, x, y),
                    }
                };
                (false, $S:ty, $D:ty) => {
                    ev_sqrt::<$S, $D>(&mut ev, ws, wd, x)
                };
            }
            macro_rules! one_p {
                ($sf:ident, $su:ident, $ss:tt, $sn:expr, $sfr:expr, $df:ident, $du:ident, $ds:expr, $dn:expr, $dfr:expr) => {
                    if Lay::new($ss, $sn, $sfr) == ws && Lay::new($ds, $dn, $dfr) == wd {
                        pair_replay!($ss, $sf<$su>, $df<$du>);
                    }
                };
            }
            pairs!(one_p);
        }
        return;
    }
    let mut idx = 0u64;
    macro_rules! one_s {
        ($fam:ident, $u:ident, $s:expr, $n:expr, $f:expr) => {
            let lay = Lay::new($s, $n, $f);
            if args.want(idx, lay) {
                drive_signed::<$fam<$u>, $fam<$u>>(&mut ev, &args, lay, lay);
                drive_trig::<$fam<$u>>(&mut ev, &args, lay);
            }
            idx += 1;
        };
    }
    layouts_s!(one_s);
    macro_rules! one_u {
        ($fam:ident, $u:ident, $s:expr, $n:expr, $f:expr) => {
            let lay = Lay::new($s, $n, $f);
            if args.want(idx, lay) {
                drive_unsigned::<$fam<$u>, $fam<$u>>(&mut ev, &args, lay, lay);
            }
            idx += 1;
        };
    }
    layouts_u!(one_u);
    macro_rules! pair_drive {
        (true, $S:ty, $D:ty, $ls:expr, $ld:expr) => {
            drive_signed::<$S, $D>(&mut ev, &args, $ls, $ld)
        };
        (false, $S:ty, $D:ty, $ls:expr, $ld:expr) => {
            drive_unsigned::<$S, $D>(&mut ev, &args, $ls, $ld)
        };
    }
    macro_rules! one_p {
        ($sf:ident, $su:ident, $ss:tt, $sn:expr, $sfr:expr, $df:ident, $du:ident, $ds:expr, $dn:expr, $dfr:expr) => {
            let ls = Lay::new($ss, $sn, $sfr);
            let ld = Lay::new($ds, $dn, $dfr);
            if args.want(idx, ls) {
                pair_drive!($ss, $sf<$su>, $df<$du>, ls, ld);
            }
            idx += 1;
        };
    }
    pairs!(one_p);
    let _ = idx;
}
