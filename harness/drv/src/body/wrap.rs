// Driver body: Wrapping<F> (C18; corpus for C11).
use drv::*;
use substrate_fixed::traits::{FromFixed, ToFixed};

type W<F> = Wrapping<F>;

fn rec6<F: Fixed>(ev: &mut Ev, f: &mut dyn FnMut() -> [F; 6])
where
    F::Bits: BitsIo,
{
    let mut r = [0u128; 6];
    match guard(&mut || {
        let q = f();
        for i in 0..6 {
            r[i] = tb(q[i]);
        }
    }) {
        None => r.iter().for_each(|v| ev.v(*v)),
        Some(p) => ev.p(&p),
    }
}

macro_rules! six_generic {
    ($w:ident, $r:ident, $op:tt, $opa:tt) => {{
        let mut c = $w;
        c $opa $r;
        let mut d = $w;
        d $opa &$r;
        [($w $op $r).0, (&$w $op $r).0, ($w $op &$r).0, (&$w $op &$r).0, c.0, d.0]
    }};
}

fn bin_ev<F: WExt>(ev: &mut Ev, lay: Lay, op: u8, a: u128, b: u128)
where
    F::Bits: BitsIo,
{
    ev.begin("wbin", lay);
    ev.arg(op as u128);
    ev.arg(a);
    ev.arg(b);
    ev.sep();
    let w: W<F> = Wrapping(fb(a));
    let r: W<F> = Wrapping(fb(b));
    rec6::<F>(ev, &mut || match op {
        0 => six_generic!(w, r, +, +=),
        1 => six_generic!(w, r, -, -=),
        2 => six_generic!(w, r, *, *=),
        3 => six_generic!(w, r, /, /=),
        _ => six_generic!(w, r, %, %=),
    });
    ev.end();
}

fn misc_ev<F: WExt>(ev: &mut Ev, lay: Lay, op: &str, x: u128, a: u128, b: u128)
where
    F::Bits: BitsIo,
{
    // op-specific operand meaning; x is a small selector
    ev.begin(op, lay);
    match op {
        "wneg" | "wnot" => {
            ev.arg(a);
            ev.sep();
            let w: W<F> = Wrapping(fb(a));
            let mut r = [0u128; 2];
            match guard(&mut || {
                let q = if op == "wneg" { [(-w).0, (-&w).0] } else { F::w_not(fb(a)) };
                r = [tb(q[0]), tb(q[1])];
            }) {
                None => r.iter().for_each(|v| ev.v(*v)),
                Some(p) => ev.p(&p),
            }
        }
        "wbit" => {
            ev.arg(x);
            ev.arg(a);
            ev.arg(b);
            ev.sep();
            rec6::<F>(ev, &mut || F::w_bit(x as u8, fb(a), fb(b)));
        }
        "wint" => {
            ev.arg(x);
            ev.arg(a);
            ev.arg(b);
            ev.sep();
            rec6::<F>(ev, &mut || F::w_int(x as u8, fb(a), <F::Bits as BitsIo>::from_u128(b)));
        }
        "weu" => {
            ev.arg(a);
            ev.arg(b);
            ev.sep();
            let w: W<F> = Wrapping(fb(a));
            let r: W<F> = Wrapping(fb(b));
            ev.rec_v(&mut || tb(w.div_euclid(r).0));
            ev.rec_v(&mut || tb(w.rem_euclid(r).0));
        }
        "weui" => {
            ev.arg(a);
            ev.arg(b);
            ev.sep();
            let w: W<F> = Wrapping(fb(a));
            let i = <F::Bits as BitsIo>::from_u128(b);
            ev.rec_v(&mut || tb(w.div_euclid_int(i).0));
            ev.rec_v(&mut || tb(w.rem_euclid_int(i).0));
        }
        _ => panic!("op"),
    }
    ev.end();
}

fn shift_ev<F: WExt>(ev: &mut Ev, lay: Lay, dir: u8, ty: u8, amt: i128, a: u128)
where
    F::Bits: BitsIo,
{
    ev.begin("wsh", lay);
    ev.arg(dir as u128);
    ev.arg(ty as u128);
    ev.arg(amt as u128);
    ev.arg(a);
    ev.sep();
    rec6::<F>(ev, &mut || F::w_shift(dir, ty, amt, fb(a)));
    ev.end();
}

fn sum_ev<F: WExt>(ev: &mut Ev, lay: Lay, xs: &[u128])
where
    F::Bits: BitsIo,
{
    ev.begin("wsum", lay);
    ev.arg(xs.len() as u128);
    for x in xs {
        ev.arg(*x);
    }
    ev.sep();
    let v: Vec<W<F>> = xs.iter().map(|x| Wrapping(fb(*x))).collect();
    ev.rec_v(&mut || tb(v.iter().copied().sum::<W<F>>().0));
    ev.rec_v(&mut || tb(v.iter().sum::<W<F>>().0));
    ev.rec_v(&mut || tb(v.iter().copied().product::<W<F>>().0));
    ev.rec_v(&mut || tb(v.iter().product::<W<F>>().0));
    ev.end();
}

fn meth_ev<F: WExt>(ev: &mut Ev, lay: Lay, a: u128, n: u32)
where
    F::Bits: BitsIo,
{
    ev.begin("wmeth", lay);
    ev.arg(a);
    ev.arg(n as u128);
    ev.sep();
    let w: W<F> = Wrapping(fb(a));
    ev.rec_v(&mut || tb(w.int().0));
    ev.rec_v(&mut || tb(w.frac().0));
    ev.rec_v(&mut || tb(w.round_to_zero().0));
    ev.rec_v(&mut || tb(w.ceil().0));
    ev.rec_v(&mut || tb(w.floor().0));
    ev.rec_v(&mut || tb(w.round().0));
    ev.rec_v(&mut || tb(w.round_ties_to_even().0));
    let mut sm: Option<([F; 2], [bool; 2])> = None;
    match guard(&mut || sm = Some(F::w_sign_methods(fb(a)))) {
        None => {
            let (v, b) = sm.unwrap();
            ev.v(tb(v[0]));
            ev.v(tb(v[1]));
            ev.b(b[0]);
            ev.b(b[1]);
        }
        Some(p) => {
            ev.p(&p);
            ev.p(&p);
            ev.p(&p);
            ev.p(&p);
        }
    }
    ev.rec_v(&mut || w.count_ones() as u128);
    ev.rec_v(&mut || w.count_zeros() as u128);
    ev.rec_v(&mut || w.leading_zeros() as u128);
    ev.rec_v(&mut || w.trailing_zeros() as u128);
    ev.rec_v(&mut || tb(w.rotate_left(n).0));
    ev.rec_v(&mut || tb(w.rotate_right(n).0));
    ev.rec_v(&mut || w.to_bits().to_u128());
    ev.rec_v(&mut || {
        // from_bits, and the From<F> wrapper, must agree on the same bits
        let w1 = W::<F>::from_bits(<F::Bits as BitsIo>::from_u128(a));
        let w2: W<F> = fb::<F>(a).into();
        if w1 == w2 { tb(w1.0) } else { !tb(w1.0) }
    });
    ev.rec_v(&mut || tb(W::<F>::min_value().0));
    ev.rec_v(&mut || tb(W::<F>::max_value().0));
    ev.rec_v(&mut || W::<F>::int_nbits() as u128);
    ev.rec_v(&mut || W::<F>::frac_nbits() as u128);
    ev.end();
}

fn from_int<F: WExt, I: BitsIo + ToFixed + FromFixed>(ev: &mut Ev, a: u128, ib: u128)
where
    F::Bits: BitsIo,
{
    ev.rec_v(&mut || tb(W::<F>::from_num(I::from_u128(ib)).0));
    ev.rec_v(&mut || Wrapping::<F>(fb(a)).to_num::<I>().to_u128());
}

/// kind: 0 i8 1 i32 2 i64 3 i128 4 u8 5 u64 6 u128 7 f32 8 f64 9 bool
fn from_ev<F: WExt>(ev: &mut Ev, lay: Lay, kind: u8, a: u128, src: u128)
where
    F::Bits: BitsIo,
{
    ev.begin("wfrom", lay);
    ev.arg(kind as u128);
    ev.arg(a);
    ev.arg(src);
    ev.sep();
    match kind {
        0 => from_int::<F, i8>(ev, a, src),
        1 => from_int::<F, i32>(ev, a, src),
        2 => from_int::<F, i64>(ev, a, src),
        3 => from_int::<F, i128>(ev, a, src),
        4 => from_int::<F, u8>(ev, a, src),
        5 => from_int::<F, u64>(ev, a, src),
        6 => from_int::<F, u128>(ev, a, src),
        7 => {
            ev.rec_v(&mut || tb(W::<F>::from_num(f32::from_bits(src as u32)).0));
            ev.rec_v(&mut || Wrapping::<F>(fb(a)).to_num::<f32>().to_bits() as u128);
        }
        8 => {
            ev.rec_v(&mut || tb(W::<F>::from_num(f64::from_bits(src as u64)).0));
            ev.rec_v(&mut || Wrapping::<F>(fb(a)).to_num::<f64>().to_bits() as u128);
        }
        _ => {
            ev.rec_v(&mut || tb(W::<F>::from_num(src != 0).0));
            ev.na();
        }
    }
    ev.end();
}

/// short program: steps (code, operand) applied to one Wrapping variable
fn prog_ev<F: WExt>(ev: &mut Ev, lay: Lay, a0: u128, steps: &[(u8, u128)])
where
    F::Bits: BitsIo,
{
    ev.begin("wprog", lay);
    ev.arg(a0);
    for (c, o) in steps {
        ev.arg_s(&format!("{:x}:{:x}", c, o));
    }
    ev.sep();
    let mut w: W<F> = Wrapping(fb(a0));
    for &(c, o) in steps {
        let r: W<F> = Wrapping(fb(o));
        let i = <F::Bits as BitsIo>::from_u128(o);
        let mut out = w;
        let p = guard(&mut || {
            out = match c {
                0 => w + r,
                1 => { let mut t = w; t -= r; t }
                2 => &w * &r,
                3 => w / r,
                4 => { let mut t = w; t %= &r; t }
                5 => -w,
                6 => w << (o as u32),
                7 => { let mut t = w; t >>= o as i8; t }
                8 => Wrapping(F::w_int(0, w.0, i)[0]),
                9 => Wrapping(F::w_int(1, w.0, i)[4]),
                10 => Wrapping(F::w_bit(0, w.0, r.0)[3]),
                11 => Wrapping(F::w_bit(1, w.0, r.0)[5]),
                12 => Wrapping(F::w_bit(2, w.0, r.0)[0]),
                _ => Wrapping(F::w_not(w.0)[0]),
            };
        });
        match p {
            None => {
                w = out;
                ev.v(tb(w.0));
            }
            Some(p) => {
                ev.p(&p);
                break;
            }
        }
    }
    ev.end();
}

const SHIFT_BITS: [u32; 12] = [8, 16, 32, 64, 128, 64, 8, 16, 32, 64, 128, 64];

fn gen_shift_amount(rng: &mut Rng, lay: Lay, ty: u8) -> i128 {
    let signed = ty < 6;
    let m = SHIFT_BITS[ty as usize];
    let v: i128 = match rng.below(8) {
        0 => 0,
        1 => lay.n as i128 - 1,
        2 => lay.n as i128,
        3 => lay.n as i128 + 1 + rng.below(70) as i128,
        4 => -(1 + rng.below(130) as i128),
        5 => rng.below(lay.n as u64) as i128,
        6 => (1i128 << (m - 1).min(126)) - 1 - rng.below(3) as i128, // near the type's max
        _ => rng.next128() as i128,
    };
    // reduce into the amount type's range (two's complement truncation, as `as` would)
    let mk = mask(m);
    let t = (v as u128) & mk;
    if signed { sext(t, m) } else { t as i128 }
}

fn drive<F: WExt>(ev: &mut Ev, args: &Args, lay: Lay)
where
    F::Bits: BitsIo,
{
    let mut rng = args.rng_for(lay, 18);
    let li = Lay::new(lay.signed, lay.n, 0);
    for it in 0..args.n {
        let a = gen_bits(&mut rng, lay);
        misc_ev::<F>(ev, lay, "wneg", 0, a, 0);
        misc_ev::<F>(ev, lay, "wnot", 0, a, 0);
        let b = if rng.chance(1, 2) { gen_add_partner(&mut rng, lay, a, false) } else { gen_bits(&mut rng, lay) };
        bin_ev::<F>(ev, lay, 0, a, b);
        let b = if rng.chance(1, 2) { gen_add_partner(&mut rng, lay, a, true) } else { gen_bits(&mut rng, lay) };
        bin_ev::<F>(ev, lay, 1, a, b);
        let b = if rng.chance(3, 5) { gen_mul_partner(&mut rng, lay, a) } else { gen_bits(&mut rng, lay) };
        bin_ev::<F>(ev, lay, 2, a, b);
        let b = if rng.chance(3, 5) { gen_div_partner(&mut rng, lay, a) } else { gen_bits(&mut rng, lay) };
        bin_ev::<F>(ev, lay, 3, a, b);
        bin_ev::<F>(ev, lay, 4, a, b);
        misc_ev::<F>(ev, lay, "weu", 0, a, b);
        let b = gen_bits(&mut rng, lay);
        misc_ev::<F>(ev, lay, "wbit", rng.below(3) as u128, a, b);
        let i = if rng.chance(1, 2) { gen_mul_partner(&mut rng, li, a) } else { gen_bits(&mut rng, li) };
        misc_ev::<F>(ev, lay, "wint", 0, a, i);
        let i = match rng.below(3) {
            0 => (rng.range(-3, 3) as i128 as u128) & lay.mask(),
            1 => gen_div_partner(&mut rng, li, a),
            _ => gen_bits(&mut rng, li),
        };
        misc_ev::<F>(ev, lay, "wint", 1, a, i);
        misc_ev::<F>(ev, lay, "wint", 2, a, i);
        misc_ev::<F>(ev, lay, "weui", 0, a, i);
        let ty = rng.below(12) as u8;
        let amt = gen_shift_amount(&mut rng, lay, ty);
        shift_ev::<F>(ev, lay, rng.below(2) as u8, ty, amt, a);
        let ra = gen_round_operand(&mut rng, lay);
        meth_ev::<F>(ev, lay, ra, rng.next() as u32 % 300);
        // sums / products over 0..5 elements
        let k = rng.below(6) as usize;
        let xs: Vec<u128> = (0..k).map(|_| gen_bits(&mut rng, lay)).collect();
        sum_ev::<F>(ev, lay, &xs);
        // conversions
        let kind = rng.below(10) as u8;
        let (isigned, m) = [(true, 8), (true, 32), (true, 64), (true, 128), (false, 8), (false, 64), (false, 128)]
            .get(kind as usize).copied().unwrap_or((false, 0));
        let src = match kind {
            0..=6 => gen_int_for(&mut rng, lay, isigned, m, a),
            7 => gen_float_for(&mut rng, lay, 32, a) as u128,
            8 => gen_float_for(&mut rng, lay, 64, a) as u128,
            _ => rng.below(2) as u128,
        };
        let fa = match kind {
            0..=6 => gen_fixed_for_int(&mut rng, lay, isigned, m),
            7 => gen_fixed_for_float(&mut rng, lay, 32),
            8 => gen_fixed_for_float(&mut rng, lay, 64),
            _ => a,
        };
        from_ev::<F>(ev, lay, kind, fa, src);
        // a short program every other iteration
        if it % 2 == 0 {
            let n = 3 + rng.below(6) as usize;
            let steps: Vec<(u8, u128)> = (0..n)
                .map(|_| {
                    let c = rng.below(14) as u8;
                    let o = match c {
                        3 | 4 | 9 => {
                            let v = gen_bits(&mut rng, lay);
                            if v == 0 && rng.chance(9, 10) { 1 } else { v }
                        }
                        6 | 7 => rng.below(300) as u128,
                        8 => gen_bits(&mut rng, li),
                        _ => gen_bits(&mut rng, lay),
                    };
                    (c, o)
                })
                .collect();
            prog_ev::<F>(ev, lay, a, &steps);
        }
    }
    // pairs solved from the divisor / multiplicand side (quotient / product on and beside a range bound for hostile divisors:
    // exactly where a forwarder wired to a non-wrapping primitive, or a non-wrapping fast path below it, shows); separate PRNG stream
    for (a, b) in div_bound_block(lay) {
        bin_ev::<F>(ev, lay, 3, a, b);
        bin_ev::<F>(ev, lay, 4, a, b);
        misc_ev::<F>(ev, lay, "weu", 0, a, b);
    }
    for (a, b) in mul_bound_block(lay) {
        bin_ev::<F>(ev, lay, 2, a, b);
    }
    let mut rng2 = args.rng_for(lay, 118);
    for _ in 0..args.n / 4 {
        let (a, b) = gen_div_pair(&mut rng2, lay);
        bin_ev::<F>(ev, lay, 3, a, b);
    }
}

fn main() {
    install_panic_hook();
    let args = Args::parse();
    let mut ev = Ev::new();
    if args.stdin {
        for l in read_stdin_lines() {
            let want = parse_lay(&l[1]);
            macro_rules! one {
                ($fam:ident, $u:ident, $s:expr, $n:expr, $f:expr) => {
                    if (Lay::new($s, $n, $f)) == want {
                        type T = $fam<$u>;
                        let h = |i: usize| parse_hex(&l[i]);
                        match l[0].as_str() {
                            "wbin" => bin_ev::<T>(&mut ev, want, h(2) as u8, h(3), h(4)),
                            "wneg" | "wnot" => misc_ev::<T>(&mut ev, want, &l[0], 0, h(2), 0),
                            "wbit" | "wint" => misc_ev::<T>(&mut ev, want, &l[0], h(2), h(3), h(4)),
                            "weu" | "weui" => misc_ev::<T>(&mut ev, want, &l[0], 0, h(2), h(3)),
                            "wsh" => {
                                let ty = h(3) as u8;
                                let m = SHIFT_BITS[ty as usize];
                                let raw = h(4) & mask(m);
                                let amt = if ty < 6 { sext(raw, m) } else { raw as i128 };
                                shift_ev::<T>(&mut ev, want, h(2) as u8, ty, amt, h(5))
                            }
                            "wsum" => {
                                let k = h(2) as usize;
                                let xs: Vec<u128> = (0..k).map(|i| h(3 + i)).collect();
                                sum_ev::<T>(&mut ev, want, &xs)
                            }
                            "wmeth" => meth_ev::<T>(&mut ev, want, h(2), h(3) as u32),
                            "wfrom" => from_ev::<T>(&mut ev, want, h(2) as u8, h(3), h(4)),
                            "wprog" => {
                                let steps: Vec<(u8, u128)> = l[3..]
                                    .iter()
                                    .map(|s| {
                                        let mut it = s.split(':');
                                        (parse_hex(it.next().unwrap()) as u8, parse_hex(it.next().unwrap()))
                                    })
                                    .collect();
                                prog_ev::<T>(&mut ev, want, h(2), &steps)
                            }
                            _ => panic!("unknown op"),
                        }
                    }
                };
            }
            layouts!(one);
        }
        return;
    }
    let mut idx = 0u64;
    macro_rules! one {
        ($fam:ident, $u:ident, $s:expr, $n:expr, $f:expr) => {
            let lay = Lay::new($s, $n, $f);
            if args.want(idx, lay) {
                drive::<$fam<$u>>(&mut ev, &args, lay);
            }
            idx += 1;
        };
    }
    layouts!(one);
    let _ = idx;
}
