// Driver body: remainders and Euclidean division (C07; corpus for C11).
use drv::*;

const OPS: &[&str] = &["rem", "rem_int", "rem_r", "rem_int_r"];

fn do_op<F: Ext>(ev: &mut Ev, lay: Lay, op: &str, a: u128, b: u128)
where
    F::Bits: BitsIo,
{
    let x: F = fb(a);
    let y: F = fb(b);
    let i: F::Bits = <F::Bits as BitsIo>::from_u128(b);
    ev.begin(op, lay);
    ev.arg(a);
    ev.arg(b);
    ev.sep();
    match op {
        "rem" => {
            ev.rec_v(&mut || tb(x % y));
            ev.rec_v(&mut || {
                let mut z = x;
                z %= y;
                tb(z)
            });
            ev.rec_s(&mut || tbs(x.checked_rem(y)));
            ev.rec_v(&mut || tb(x.rem_euclid(y)));
            ev.rec_s(&mut || tbs(x.checked_rem_euclid(y)));
            ev.rec_v(&mut || tb(x.div_euclid(y)));
            ev.rec_s(&mut || tbs(x.checked_div_euclid(y)));
            ev.rec_v(&mut || tb(x.saturating_div_euclid(y)));
            ev.rec_v(&mut || tb(x.wrapping_div_euclid(y)));
            ev.rec_o(&mut || tbo(x.overflowing_div_euclid(y)));
        }
        "rem_int" => {
            ev.rec_v(&mut || tb(x % i));
            ev.rec_v(&mut || {
                let mut z = x;
                z %= i;
                tb(z)
            });
            ev.rec_s(&mut || tbs(x.x_checked_rem_int(i)));
            ev.rec_s(&mut || tbs(Fixed::checked_rem_int(x, i)));
            // deprecated wrapping_/overflowing_rem_int: inherent methods and the trait's provided methods
            ev.rec_v(&mut || tb(x.x_wrapping_rem_int(i)));
            ev.rec_o(&mut || tbo(x.x_overflowing_rem_int(i)));
            #[allow(deprecated)]
            {
                ev.rec_v(&mut || tb(Fixed::wrapping_rem_int(x, i)));
                ev.rec_o(&mut || tbo(Fixed::overflowing_rem_int(x, i)));
            }
            ev.rec_v(&mut || tb(x.rem_euclid_int(i)));
            ev.rec_s(&mut || tbs(x.checked_rem_euclid_int(i)));
            ev.rec_v(&mut || tb(x.wrapping_rem_euclid_int(i)));
            ev.rec_o(&mut || tbo(x.overflowing_rem_euclid_int(i)));
            ev.rec_v(&mut || tb(x.div_euclid_int(i)));
            ev.rec_s(&mut || tbs(x.checked_div_euclid_int(i)));
            ev.rec_v(&mut || tb(x.wrapping_div_euclid_int(i)));
            ev.rec_o(&mut || tbo(x.overflowing_div_euclid_int(i)));
        }
        "rem_r" => {
            let mut r = [0u128; 4];
            let p = guard(&mut || {
                let q = F::x_rem_refs(&x, &y);
                let s = F::x_rem_assign_ref(x, &y);
                r = [tb(q[0]), tb(q[1]), tb(q[2]), tb(s)];
            });
            match p {
                None => r.iter().for_each(|v| ev.v(*v)),
                Some(p) => ev.p(&p),
            }
        }
        "rem_int_r" => {
            let mut r = [0u128; 4];
            let p = guard(&mut || {
                let q = F::x_rem_int_refs(&x, &i);
                let s = F::x_int_assign_refs(x, &i, 2);
                r = [tb(q[0]), tb(q[1]), tb(q[2]), tb(s)];
            });
            match p {
                None => r.iter().for_each(|v| ev.v(*v)),
                Some(p) => ev.p(&p),
            }
        }
        _ => panic!("unknown op"),
    }
    ev.end();
}

fn drive<F: Ext>(ev: &mut Ev, args: &Args, lay: Lay)
where
    F::Bits: BitsIo,
{
    if args.get_u64("exhaustive", 0) == 1 && lay.n <= 8 {
        for a in 0..(1u128 << lay.n) {
            for b in 0..(1u128 << lay.n) {
                do_op::<F>(ev, lay, "rem", a, b);
                do_op::<F>(ev, lay, "rem_int", a, b);
            }
        }
        return;
    }
    let mut rng = args.rng_for(lay, 7);
    let li = Lay::new(lay.signed, lay.n, 0);
    for it in 0..args.n {
        let a = gen_bits(&mut rng, lay);
        let b = if rng.chance(1, 2) { gen_div_partner(&mut rng, lay, a) } else { gen_bits(&mut rng, lay) };
        do_op::<F>(ev, lay, "rem", a, b);
        if it % 8 == 0 {
            do_op::<F>(ev, lay, "rem_r", a, b);
        }
        // integer divisor: small integers matter most (they are the ones that fit the type)
        let b = match rng.below(4) {
            0 => (rng.range(-4, 4) as i128 as u128) & lay.mask(),
            1 => {
                // about the size of the integer part of a
                let ip = if lay.f >= lay.n { 0 } else { (lay.sext(a) >> lay.f) as u128 };
                ip.wrapping_add(rng.range(-2, 2) as i128 as u128) & lay.mask()
            }
            2 => gen_div_partner(&mut rng, li, a),
            _ => gen_bits(&mut rng, li),
        };
        do_op::<F>(ev, lay, "rem_int", a, b);
        if it % 8 == 0 {
            do_op::<F>(ev, lay, "rem_int_r", a, b);
        }
    }
    // pairs solved from the divisor side (quotient on / beside a range bound for hostile divisors); separate PRNG stream
    for (i, (a, b)) in div_bound_block(lay).into_iter().enumerate() {
        do_op::<F>(ev, lay, "rem", a, b);
        if i % 4 == 0 {
            do_op::<F>(ev, lay, "rem_r", a, b);
        }
    }
    let mut rng2 = args.rng_for(lay, 107);
    for _ in 0..args.n / 4 {
        let (a, b) = gen_div_pair(&mut rng2, lay);
        do_op::<F>(ev, lay, "rem", a, b);
    }
}

fn main() {
    install_panic_hook();
    let args = Args::parse();
    let mut ev = Ev::new();
    if args.stdin {
        for l in read_stdin_lines() {
            let want = parse_lay(&l[1]);
            let a = parse_hex(&l[2]);
            let b = parse_hex(&l[3]);
            assert!(OPS.contains(&l[0].as_str()), "unknown op");
            macro_rules! one {
                ($fam:ident, $u:ident, $s:expr, $n:expr, $f:expr) => {
                    if (Lay::new($s, $n, $f)) == want {
                        do_op::<$fam<$u>>(&mut ev, want, &l[0], a, b);
                    }
                };
            }
            layouts!(one);
        }
        return;
    }
    let mut idx = 0u64;
    macro_rules! one {
        ($fam:ident, $u:ident, $s:expr, $n:expr, $f:expr) => {
            let lay = Lay::new($s, $n, $f);
            if args.want(idx, lay) {
                drive::<$fam<$u>>(&mut ev, &args, lay);
            }
            idx += 1;
        };
    }
    layouts!(one);
    let _ = idx;
}
