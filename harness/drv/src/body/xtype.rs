// Driver body: fixed <-> fixed conversions and comparisons across layouts
// (C04 / C03 cross-type part; corpus for C11).  `pairs!` lists (S, D) type pairs.
use drv::*;

fn pair_ev<S, D>(ev: &mut Ev, ls: Lay, ld: Lay, a: u128, b: u128)
where
    S: Ext + PartialOrd<D> + PartialEq<D> + AzTo<D>,
    D: Ext + PartialOrd<S> + PartialEq<S>,
    S::Bits: BitsIo,
    D::Bits: BitsIo,
{
    let s: S = fb(a);
    let d: D = fb(b);
    ev.begin("ff", ls);
    ev.arg_s(&ld.name());
    ev.arg(a);
    ev.arg(b);
    ev.sep();
    ev.rec_v(&mut || tb(D::from_num(s)));
    ev.rec_s(&mut || tbs(D::checked_from_num(s)));
    ev.rec_v(&mut || tb(D::saturating_from_num(s)));
    ev.rec_v(&mut || tb(D::wrapping_from_num(s)));
    ev.rec_o(&mut || tbo(D::overflowing_from_num(s)));
    ev.rec_v(&mut || tb(s.to_num::<D>()));
    ev.rec_s(&mut || tbs(s.checked_to_num::<D>()));
    ev.rec_v(&mut || tb(s.saturating_to_num::<D>()));
    ev.rec_v(&mut || tb(s.wrapping_to_num::<D>()));
    ev.rec_o(&mut || tbo(s.overflowing_to_num::<D>()));
    rec_ord(ev, &mut || ord7(&s, &d));
    rec_ord(ev, &mut || ord7(&d, &s));
    ev.end();
    // the same conversion through the az cast traits (feature "az", src/cast.rs)
    ev.begin("zf", ls);
    ev.arg_s(&ld.name());
    ev.arg(a);
    ev.sep();
    for form in 0..6u8 {
        rec_az(ev, form, &mut || az_fixed::<S, D>(s, form));
    }
    ev.end();
}

/// the D-grid pattern of the value of `a` (wrapped), shifted on raw bits
fn regrid(ls: Lay, ld: Lay, a: u128) -> u128 {
    let v = if ls.signed { ls.sext(a) } else { a as i128 };
    let sh = ld.f as i32 - ls.f as i32;
    let r = if sh >= 128 || sh <= -128 {
        if sh < 0 && v < 0 { -1 } else { 0 }
    } else if sh >= 0 {
        // u128 source values above i128::MAX only occur for n = 128 unsigned; wrap is fine
        ((if ls.signed { v as u128 } else { a }) << sh) as i128
    } else if ls.signed {
        v >> (-sh)
    } else {
        (a >> (-sh)) as i128
    };
    (r as u128) & ld.mask()
}

fn drive<S, D>(ev: &mut Ev, args: &Args, ls: Lay, ld: Lay)
where
    S: Ext + PartialOrd<D> + PartialEq<D> + AzTo<D>,
    D: Ext + PartialOrd<S> + PartialEq<S>,
    S::Bits: BitsIo,
    D::Bits: BitsIo,
{
    let ex = args.get_u64("exhaustive", 0);
    if ex > 0 && ls.n == 8 && ld.n == 8 {
        for a in 0..256u128 {
            if ex == 2 {
                for b in 0..256u128 {
                    pair_ev::<S, D>(ev, ls, ld, a, b);
                }
            } else {
                let r = regrid(ls, ld, a);
                for d in [0u128, 1, 255] {
                    pair_ev::<S, D>(ev, ls, ld, a, r.wrapping_add(d) & 0xFF);
                }
            }
        }
        return;
    }
    let mut rng = args.rng_for(ls, 40 + ld.id());
    for _ in 0..args.n {
        let a = if rng.chance(2, 3) { gen_fixed_for_fixed(&mut rng, ls, ld) } else { gen_bits(&mut rng, ls) };
        let b = match rng.below(6) {
            0 | 1 | 2 => regrid(ls, ld, a).wrapping_add(rng.range(-1, 1) as i128 as u128) & ld.mask(),
            3 => gen_fixed_for_fixed(&mut rng, ld, ls),
            _ => gen_bits(&mut rng, ld),
        };
        pair_ev::<S, D>(ev, ls, ld, a, b);
    }
}

fn main() {
    install_panic_hook();
    let args = Args::parse();
    let mut ev = Ev::new();
    if args.stdin {
        for l in read_stdin_lines() {
            let ws = parse_lay(&l[1]);
            let wd = parse_lay(&l[2]);
            macro_rules! one {
                ($sf:ident, $su:ident, $ss:expr, $sn:expr, $sfr:expr, $df:ident, $du:ident, $ds:expr, $dn:expr, $dfr:expr) => {
                    if Lay::new($ss, $sn, $sfr) == ws && Lay::new($ds, $dn, $dfr) == wd {
                        pair_ev::<$sf<$su>, $df<$du>>(&mut ev, ws, wd, parse_hex(&l[3]), if l.len() > 4 { parse_hex(&l[4]) } else { 0 });
                    }
                };
            }
            pairs!(one);
        }
        return;
    }
    let mut idx = 0u64;
    macro_rules! one {
        ($sf:ident, $su:ident, $ss:expr, $sn:expr, $sfr:expr, $df:ident, $du:ident, $ds:expr, $dn:expr, $dfr:expr) => {
            let ls = Lay::new($ss, $sn, $sfr);
            let ld = Lay::new($ds, $dn, $dfr);
            if args.want(idx, ls) {
                drive::<$sf<$su>, $df<$du>>(&mut ev, &args, ls, ld);
            }
            idx += 1;
        };
    }
    pairs!(one);
    let _ = idx;
}
