// Driver body: float <-> fixed conversions and comparisons (C05, C03 float part; corpus for C11).
use drv::*;
use substrate_fixed::traits::LossyFrom;

/// the same conversions through the az cast traits (feature "az", src/cast.rs)
fn az_ev<F: Ext>(ev: &mut Ev, lay: Lay, w: u32, a: u128, fbits: u64)
where
    F::Bits: BitsIo,
{
    let x: F = fb(a);
    ev.begin("zl", lay);
    ev.arg_s(if w == 32 { "32" } else { "64" });
    ev.arg(a);
    ev.arg(fbits as u128);
    ev.sep();
    for form in 0..6u8 {
        rec_az(ev, form, &mut || F::az_from_float(form, w, fbits));
    }
    for form in 0..6u8 {
        rec_az(ev, form, &mut || x.az_to_float(form, w));
    }
    ev.end();
}

fn f32_ev<F: Ext>(ev: &mut Ev, lay: Lay, a: u128, fbits: u64)
where
    F::Bits: BitsIo,
    f32: LossyFrom<F>,
{
    let x: F = fb(a);
    let f = f32::from_bits(fbits as u32);
    ev.begin("fl", lay);
    ev.arg_s("32");
    ev.arg(a);
    ev.arg(fbits as u128);
    ev.sep();
    ev.rec_v(&mut || tb(F::from_num(f)));
    ev.rec_s(&mut || tbs(F::checked_from_num(f)));
    ev.rec_v(&mut || tb(F::saturating_from_num(f)));
    ev.rec_v(&mut || tb(F::wrapping_from_num(f)));
    ev.rec_o(&mut || tbo(F::overflowing_from_num(f)));
    ev.rec_v(&mut || x.to_num::<f32>().to_bits() as u128);
    ev.rec_s(&mut || x.checked_to_num::<f32>().map(|v| v.to_bits() as u128));
    ev.rec_v(&mut || x.saturating_to_num::<f32>().to_bits() as u128);
    ev.rec_v(&mut || x.wrapping_to_num::<f32>().to_bits() as u128);
    ev.rec_o(&mut || {
        let (v, o) = x.overflowing_to_num::<f32>();
        (v.to_bits() as u128, o)
    });
    ev.rec_v(&mut || f32::lossy_from(x).to_bits() as u128);
    rec_ord(ev, &mut || ord7(&x, &f));
    rec_ord(ev, &mut || x.x_rev_cmp_f32(f));
    ev.end();
    az_ev::<F>(ev, lay, 32, a, fbits);
}

fn f64_ev<F: Ext>(ev: &mut Ev, lay: Lay, a: u128, fbits: u64)
where
    F::Bits: BitsIo,
    f64: LossyFrom<F>,
{
    let x: F = fb(a);
    let f = f64::from_bits(fbits);
    ev.begin("fl", lay);
    ev.arg_s("64");
    ev.arg(a);
    ev.arg(fbits as u128);
    ev.sep();
    ev.rec_v(&mut || tb(F::from_num(f)));
    ev.rec_s(&mut || tbs(F::checked_from_num(f)));
    ev.rec_v(&mut || tb(F::saturating_from_num(f)));
    ev.rec_v(&mut || tb(F::wrapping_from_num(f)));
    ev.rec_o(&mut || tbo(F::overflowing_from_num(f)));
    ev.rec_v(&mut || x.to_num::<f64>().to_bits() as u128);
    ev.rec_s(&mut || x.checked_to_num::<f64>().map(|v| v.to_bits() as u128));
    ev.rec_v(&mut || x.saturating_to_num::<f64>().to_bits() as u128);
    ev.rec_v(&mut || x.wrapping_to_num::<f64>().to_bits() as u128);
    ev.rec_o(&mut || {
        let (v, o) = x.overflowing_to_num::<f64>();
        (v.to_bits() as u128, o)
    });
    ev.rec_v(&mut || f64::lossy_from(x).to_bits() as u128);
    rec_ord(ev, &mut || ord7(&x, &f));
    rec_ord(ev, &mut || x.x_rev_cmp_f64(f));
    ev.end();
    az_ev::<F>(ev, lay, 64, a, fbits);
}

fn drive<F: Ext>(ev: &mut Ev, args: &Args, lay: Lay)
where
    F::Bits: BitsIo,
    f32: LossyFrom<F>,
    f64: LossyFrom<F>,
{
    let mut rng = args.rng_for(lay, 5);
    if args.get_u64("exhaustive", 0) == 1 && lay.n <= 16 {
        // every value of the 8- and 16-bit layouts to both float types (with a generated float for the other direction)
        for a in 0..(1u128 << lay.n) {
            let f = gen_float_for(&mut rng, lay, 32, a);
            f32_ev::<F>(ev, lay, a, f);
            let f = gen_float_for(&mut rng, lay, 64, a);
            f64_ev::<F>(ev, lay, a, f);
        }
    }
    // fixed values 0, +-1 ulp against floats at +-{1/4, 1/2, 3/4, 1, 3/2} ulp (rounding to zero from either side,
    // ties at zero), for both float widths
    for &a in [0u128, 1, lay.mask()].iter() {
        for &(m, e) in [(1u128, 2i32), (1, 1), (3, 2), (1, 0), (3, 1)].iter() {
            for &neg in [false, true].iter() {
                if let Some(f) = make_float(32, neg, m, -(lay.f as i32) - e) {
                    f32_ev::<F>(ev, lay, a, f);
                }
                if let Some(f) = make_float(64, neg, m, -(lay.f as i32) - e) {
                    f64_ev::<F>(ev, lay, a, f);
                }
            }
        }
    }
    for _ in 0..args.n {
        let a = gen_fixed_for_float(&mut rng, lay, 32);
        let f = gen_float_for(&mut rng, lay, 32, a);
        f32_ev::<F>(ev, lay, a, f);
        let a = gen_fixed_for_float(&mut rng, lay, 64);
        let f = gen_float_for(&mut rng, lay, 64, a);
        f64_ev::<F>(ev, lay, a, f);
    }
}

fn main() {
    install_panic_hook();
    let args = Args::parse();
    let mut ev = Ev::new();
    if args.stdin {
        for l in read_stdin_lines() {
            let want = parse_lay(&l[1]);
            macro_rules! one {
                ($fam:ident, $u:ident, $s:expr, $n:expr, $f:expr) => {
                    if (Lay::new($s, $n, $f)) == want {
                        if l[2] == "32" {
                            f32_ev::<$fam<$u>>(&mut ev, want, parse_hex(&l[3]), parse_hex(&l[4]) as u64);
                        } else {
                            f64_ev::<$fam<$u>>(&mut ev, want, parse_hex(&l[3]), parse_hex(&l[4]) as u64);
                        }
                    }
                };
            }
            layouts!(one);
        }
        return;
    }
    let mut idx = 0u64;
    macro_rules! one {
        ($fam:ident, $u:ident, $s:expr, $n:expr, $f:expr) => {
            let lay = Lay::new($s, $n, $f);
            if args.want(idx, lay) {
                drive::<$fam<$u>>(&mut ev, &args, lay);
            }
            idx += 1;
        };
    }
    layouts!(one);
    let _ = idx;
}
