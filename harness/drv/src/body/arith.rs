// Driver body: arithmetic forms (C01, C02; corpus for C11).
// Included by the generated bin stubs, which define `layouts!`.
use drv::*;

const OPS: &[&str] = &[
    "signum", "npow2", "neg", "abs", "add", "sub", "mul", "div", "mul_int", "div_int", "add_r", "sub_r", "mul_r",
    "div_r", "mul_int_r", "div_int_r", "signum_t", "npow2_t", "abs_t",
];

fn do_op<F: Ext>(ev: &mut Ev, lay: Lay, op: &str, a: u128, b: u128)
where
    F::Bits: BitsIo,
{
    let x: F = fb(a);
    let y: F = fb(b);
    let i: F::Bits = <F::Bits as BitsIo>::from_u128(b);
    ev.begin(op, lay);
    ev.arg(a);
    if op != "neg" && op != "abs" && op != "signum" && op != "npow2" {
        ev.arg(b);
    }
    ev.sep();
    match op {
        "neg" => {
            ev.rec_s(&mut || tbs(x.checked_neg()));
            ev.rec_v(&mut || tb(x.saturating_neg()));
            ev.rec_v(&mut || tb(x.wrapping_neg()));
            ev.rec_o(&mut || tbo(x.overflowing_neg()));
            if F::IS_SIGNED {
                ev.rec_v(&mut || tb(x.x_neg()));
                ev.rec_v(&mut || tb(F::x_neg_ref(&x)));
            } else {
                ev.na();
                ev.na();
            }
        }
        "signum" => {
            ev.rec_v(&mut || tb(x.x_signum()));
        }
        "npow2" => {
            ev.rec_s(&mut || tbs(x.x_checked_next_power_of_two()));
            ev.rec_v(&mut || tb(x.x_next_power_of_two()));
            ev.rec_b(&mut || x.x_is_power_of_two());
        }
        // the FixedSigned / FixedUnsigned trait route (same token layout as the inherent route)
        "signum_t" => {
            ev.rec_v(&mut || tb(x.t_signum()));
        }
        "npow2_t" => {
            ev.rec_s(&mut || tbs(x.t_checked_next_power_of_two()));
            ev.rec_v(&mut || tb(x.t_next_power_of_two()));
            ev.rec_b(&mut || x.t_is_power_of_two());
        }
        "abs_t" => {
            ev.rec_s(&mut || tbs(x.t_checked_abs()));
            ev.rec_v(&mut || tb(x.t_saturating_abs()));
            ev.rec_v(&mut || tb(x.t_wrapping_abs()));
            ev.rec_o(&mut || tbo(x.t_overflowing_abs()));
            ev.rec_v(&mut || tb(x.t_abs()));
        }
        "abs" => {
            ev.rec_s(&mut || tbs(x.x_checked_abs()));
            ev.rec_v(&mut || tb(x.x_saturating_abs()));
            ev.rec_v(&mut || tb(x.x_wrapping_abs()));
            ev.rec_o(&mut || tbo(x.x_overflowing_abs()));
            ev.rec_v(&mut || tb(x.x_abs()));
        }
        "add" => {
            ev.rec_s(&mut || tbs(x.checked_add(y)));
            ev.rec_v(&mut || tb(x.saturating_add(y)));
            ev.rec_v(&mut || tb(x.wrapping_add(y)));
            ev.rec_o(&mut || tbo(x.overflowing_add(y)));
            ev.rec_v(&mut || tb(x + y));
            ev.rec_v(&mut || {
                let mut z = x;
                z += y;
                tb(z)
            });
        }
        "sub" => {
            ev.rec_s(&mut || tbs(x.checked_sub(y)));
            ev.rec_v(&mut || tb(x.saturating_sub(y)));
            ev.rec_v(&mut || tb(x.wrapping_sub(y)));
            ev.rec_o(&mut || tbo(x.overflowing_sub(y)));
            ev.rec_v(&mut || tb(x - y));
            ev.rec_v(&mut || {
                let mut z = x;
                z -= y;
                tb(z)
            });
        }
        "mul" => {
            ev.rec_s(&mut || tbs(x.checked_mul(y)));
            ev.rec_v(&mut || tb(x.saturating_mul(y)));
            ev.rec_v(&mut || tb(x.wrapping_mul(y)));
            ev.rec_o(&mut || tbo(x.overflowing_mul(y)));
            ev.rec_v(&mut || tb(x * y));
            ev.rec_v(&mut || {
                let mut z = x;
                z *= y;
                tb(z)
            });
        }
        "div" => {
            ev.rec_s(&mut || tbs(x.checked_div(y)));
            ev.rec_v(&mut || tb(x.saturating_div(y)));
            ev.rec_v(&mut || tb(x.wrapping_div(y)));
            ev.rec_o(&mut || tbo(x.overflowing_div(y)));
            ev.rec_v(&mut || tb(x / y));
            ev.rec_v(&mut || {
                let mut z = x;
                z /= y;
                tb(z)
            });
        }
        "mul_int" => {
            ev.rec_s(&mut || tbs(x.checked_mul_int(i)));
            ev.rec_v(&mut || tb(x.saturating_mul_int(i)));
            ev.rec_v(&mut || tb(x.wrapping_mul_int(i)));
            ev.rec_o(&mut || tbo(x.overflowing_mul_int(i)));
            ev.rec_v(&mut || tb(x * i));
            ev.rec_v(&mut || {
                let mut z = x;
                z *= i;
                tb(z)
            });
            ev.rec_v(&mut || tb(F::x_int_mul(i, x)));
        }
        "div_int" => {
            ev.rec_s(&mut || tbs(x.checked_div_int(i)));
            ev.rec_v(&mut || tb(x.wrapping_div_int(i)));
            ev.rec_o(&mut || tbo(x.overflowing_div_int(i)));
            ev.rec_v(&mut || tb(x / i));
            ev.rec_v(&mut || {
                let mut z = x;
                z /= i;
                tb(z)
            });
        }
        "add_r" | "sub_r" | "mul_r" | "div_r" => {
            let mut r = [0u128; 4];
            let p = guard(&mut || {
                let (q, s) = match op {
                    "add_r" => (F::x_add_refs(&x, &y), F::x_add_assign_ref(x, &y)),
                    "sub_r" => (F::x_sub_refs(&x, &y), F::x_sub_assign_ref(x, &y)),
                    "mul_r" => (F::x_mul_refs(&x, &y), F::x_mul_assign_ref(x, &y)),
                    _ => (F::x_div_refs(&x, &y), F::x_div_assign_ref(x, &y)),
                };
                r = [tb(q[0]), tb(q[1]), tb(q[2]), tb(s)];
            });
            match p {
                None => r.iter().for_each(|v| ev.v(*v)),
                Some(p) => ev.p(&p),
            }
        }
        "mul_int_r" => {
            // a * i by reference (3), integer on the left by reference (3), a *= &i
            let mut r = [0u128; 7];
            let p = guard(&mut || {
                let q = F::x_mul_int_refs(&x, &i);
                let l = F::x_int_mul_refs(&i, &x);
                let s = F::x_int_assign_refs(x, &i, 0);
                r = [tb(q[0]), tb(q[1]), tb(q[2]), tb(l[0]), tb(l[1]), tb(l[2]), tb(s)];
            });
            match p {
                None => r.iter().for_each(|v| ev.v(*v)),
                Some(p) => ev.p(&p),
            }
        }
        "div_int_r" => {
            let mut r = [0u128; 4];
            let p = guard(&mut || {
                let q = F::x_div_int_refs(&x, &i);
                let s = F::x_int_assign_refs(x, &i, 1);
                r = [tb(q[0]), tb(q[1]), tb(q[2]), tb(s)];
            });
            match p {
                None => r.iter().for_each(|v| ev.v(*v)),
                Some(p) => ev.p(&p),
            }
        }
        _ => panic!("unknown op {}", op),
    }
    ev.end();
}

/// iter::Sum / iter::Product of 0..=4 elements, over values and over references (the fold spelling of + and *)
fn fold_ev<F: Ext>(ev: &mut Ev, lay: Lay, xs: &[u128])
where
    F::Bits: BitsIo,
{
    ev.begin("fold", lay);
    ev.arg(xs.len() as u128);
    for x in xs {
        ev.arg(*x);
    }
    ev.sep();
    let v: Vec<F> = xs.iter().map(|x| fb(*x)).collect();
    ev.rec_v(&mut || tb(F::x_sum_val(&v)));
    ev.rec_v(&mut || tb(F::x_sum_ref(&v)));
    ev.rec_v(&mut || tb(F::x_prod_val(&v)));
    ev.rec_v(&mut || tb(F::x_prod_ref(&v)));
    ev.end();
}

fn drive<F: Ext>(ev: &mut Ev, args: &Args, lay: Lay)
where
    F::Bits: BitsIo,
{
    if args.get_u64("exhaustive", 0) == 1 && lay.n == 8 {
        // every operand pair of an 8-bit layout, every op
        for a in 0..256u128 {
            do_op::<F>(ev, lay, "neg", a, 0);
            if F::IS_SIGNED {
                do_op::<F>(ev, lay, "abs", a, 0);
            }
            for b in 0..256u128 {
                for op in ["add", "sub", "mul", "div", "mul_int", "div_int"].iter() {
                    do_op::<F>(ev, lay, op, a, b);
                }
                if (a ^ b) & 7 == 0 {
                    for op in ["add_r", "sub_r", "mul_r", "div_r", "mul_int_r", "div_int_r"].iter() {
                        do_op::<F>(ev, lay, op, a, b);
                    }
                }
            }
        }
    }
    let mut rng = args.rng_for(lay, 1);
    for it in 0..args.n {
        let a = gen_bits(&mut rng, lay);
        let refs = it % 8 == 0;
        do_op::<F>(ev, lay, "neg", a, 0);
        if F::IS_SIGNED {
            do_op::<F>(ev, lay, "abs", a, 0);
            do_op::<F>(ev, lay, "signum", a, 0);
        } else {
            do_op::<F>(ev, lay, "npow2", a, 0);
        }
        let b = if rng.chance(1, 2) { gen_add_partner(&mut rng, lay, a, false) } else { gen_bits(&mut rng, lay) };
        do_op::<F>(ev, lay, "add", a, b);
        if refs {
            do_op::<F>(ev, lay, "add_r", a, b);
        }
        let b = if rng.chance(1, 2) { gen_add_partner(&mut rng, lay, a, true) } else { gen_bits(&mut rng, lay) };
        do_op::<F>(ev, lay, "sub", a, b);
        if refs {
            do_op::<F>(ev, lay, "sub_r", a, b);
        }
        let b = if rng.chance(3, 5) { gen_mul_partner(&mut rng, lay, a) } else { gen_bits(&mut rng, lay) };
        do_op::<F>(ev, lay, "mul", a, b);
        if refs {
            do_op::<F>(ev, lay, "mul_r", a, b);
        }
        let b = if rng.chance(3, 5) { gen_div_partner(&mut rng, lay, a) } else { gen_bits(&mut rng, lay) };
        do_op::<F>(ev, lay, "div", a, b);
        if refs {
            do_op::<F>(ev, lay, "div_r", a, b);
        }
        // integer operands: targeted with frac = 0 (plain integer product/quotient of the bits)
        let li = Lay::new(lay.signed, lay.n, 0);
        let b = if rng.chance(1, 2) { gen_mul_partner(&mut rng, li, a) } else { gen_bits(&mut rng, li) };
        do_op::<F>(ev, lay, "mul_int", a, b);
        if refs {
            do_op::<F>(ev, lay, "mul_int_r", a, b);
        }
        let b = if rng.chance(1, 2) { gen_div_partner(&mut rng, li, a) } else { gen_bits(&mut rng, li) };
        do_op::<F>(ev, lay, "div_int", a, b);
        if refs {
            do_op::<F>(ev, lay, "div_int_r", a, b);
        }
    }
    // pairs solved from the divisor / multiplicand side: exact quotient / product on and beside MAX, MAX+1, MIN, MIN-1, +-2^n for
    // hostile divisors (systematic block + random members).  Separate PRNG stream: the events above do not move.
    for (i, (a, b)) in div_bound_block(lay).into_iter().enumerate() {
        do_op::<F>(ev, lay, "div", a, b);
        if i % 4 == 0 {
            do_op::<F>(ev, lay, "div_r", a, b);
        }
    }
    for (i, (a, b)) in mul_bound_block(lay).into_iter().enumerate() {
        do_op::<F>(ev, lay, "mul", a, b);
        if i % 4 == 0 {
            do_op::<F>(ev, lay, "mul_r", a, b);
        }
    }
    let mut rng2 = args.rng_for(lay, 101);
    for _ in 0..args.n / 4 {
        let (a, b) = gen_div_pair(&mut rng2, lay);
        do_op::<F>(ev, lay, "div", a, b);
    }
    // Sum / Product folds: empty, one element (must come back unchanged on every layout, including those that cannot
    // represent 1), and 2..4 elements small enough for the running result to stay representable most of the time
    let mut rng3 = args.rng_for(lay, 103);
    fold_ev::<F>(ev, lay, &[]);
    for &x in [0u128, 1, lay.max_bits(), lay.min_bits(), lay.mask()].iter() {
        fold_ev::<F>(ev, lay, &[x]);
    }
    for _ in 0..args.n / 4 {
        let k = 1 + rng3.below(4) as usize;
        let xs: Vec<u128> = (0..k)
            .map(|_| {
                if rng3.chance(1, 3) {
                    gen_bits(&mut rng3, lay)
                } else {
                    // magnitude about 2^(f +- few): products of a few such values stay in range when there are integer bits
                    let top = (lay.f + rng3.below(3) as u32).min(lay.n - lay.signed as u32).max(1);
                    let len = 1 + rng3.below(top as u64) as u32;
                    let v = rng3.next128() & mask(len);
                    if lay.signed && rng3.chance(1, 2) { v.wrapping_neg() & lay.mask() } else { v }
                }
            })
            .collect();
        fold_ev::<F>(ev, lay, &xs);
    }
    // abs family / signum / next_power_of_two through the FixedSigned / FixedUnsigned trait impls (separate PRNG stream)
    let mut rng4 = args.rng_for(lay, 104);
    for _ in 0..(args.n / 4).max(8) {
        let a = gen_bits(&mut rng4, lay);
        if F::IS_SIGNED {
            do_op::<F>(ev, lay, "abs_t", a, 0);
            do_op::<F>(ev, lay, "signum_t", a, 0);
        } else {
            do_op::<F>(ev, lay, "npow2_t", a, 0);
        }
    }
}

fn main() {
    install_panic_hook();
    let args = Args::parse();
    let mut ev = Ev::new();
    if args.stdin {
        for l in read_stdin_lines() {
            let want = parse_lay(&l[1]);
            let a = parse_hex(&l[2]);
            let b = l.get(3).map(|s| parse_hex(s)).unwrap_or(0);
            let is_fold = l[0] == "fold";
            let xs: Vec<u128> = if is_fold { l[3..].iter().map(|s| parse_hex(s)).collect() } else { Vec::new() };
            assert!(is_fold || OPS.contains(&l[0].as_str()), "unknown op");
            macro_rules! one {
                ($fam:ident, $u:ident, $s:expr, $n:expr, $f:expr) => {
                    if (Lay::new($s, $n, $f)) == want {
                        if is_fold {
                            fold_ev::<$fam<$u>>(&mut ev, want, &xs);
                        } else {
                            do_op::<$fam<$u>>(&mut ev, want, &l[0], a, b);
                        }
                    }
                };
            }
            layouts!(one);
        }
        return;
    }
    let mut idx = 0u64;
    macro_rules! one {
        ($fam:ident, $u:ident, $s:expr, $n:expr, $f:expr) => {
            let lay = Lay::new($s, $n, $f);
            if args.want(idx, lay) {
                drive::<$fam<$u>>(&mut ev, &args, lay);
            }
            idx += 1;
        };
    }
    layouts!(one);
    let _ = idx;
}
