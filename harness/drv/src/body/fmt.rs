// Driver body: formatting (C09; corpus for C11).
use drv::fmtx::*;
use drv::*;

const WIDTHS: [Option<usize>; 7] = [None, None, Some(0), Some(1), Some(7), Some(40), Some(150)];

fn fmt_ev<F: Ext>(ev: &mut Ev, lay: Lay, a: u128, kind: u8, fs: u8, w: Option<usize>, p: Option<usize>)
where
    F::Bits: BitsIo,
{
    let x: F = fb(a);
    ev.begin("fm", lay);
    ev.arg(a);
    ev.arg(kind as u128);
    ev.arg(fs as u128);
    ev.arg_s(&w.map(|v| v.to_string()).unwrap_or_else(|| "-".into()));
    ev.arg_s(&p.map(|v| v.to_string()).unwrap_or_else(|| "-".into()));
    ev.sep();
    let f = Fmts { d: &x, g: &x, b: &x, o: &x, x: &x, u: &x };
    let mut s = String::new();
    match guard(&mut || s = fmt_one(&f, kind, fs, w, p)) {
        None => ev.t(s.as_bytes()),
        Some(pn) => ev.p(&pn),
    }
    ev.end();
}

/// `Wrapping<F>` implements Display by forwarding: with any width / precision / flag set it must print what F prints
fn fw_ev<F: Ext>(ev: &mut Ev, lay: Lay, a: u128, fs: u8, w: Option<usize>, p: Option<usize>)
where
    F::Bits: BitsIo,
{
    let x: F = fb(a);
    let wx = Wrapping(x);
    ev.begin("fw", lay);
    ev.arg(a);
    ev.arg(fs as u128);
    ev.arg_s(&w.map(|v| v.to_string()).unwrap_or_else(|| "-".into()));
    ev.arg_s(&p.map(|v| v.to_string()).unwrap_or_else(|| "-".into()));
    ev.sep();
    let fw = Fmts { d: &wx, g: &x, b: &x, o: &x, x: &x, u: &x };
    let ff = Fmts { d: &x, g: &x, b: &x, o: &x, x: &x, u: &x };
    for f in [&fw, &ff].iter() {
        let mut s = String::new();
        match guard(&mut || s = fmt_one(f, 0, fs, w, p)) {
            None => ev.t(s.as_bytes()),
            Some(pn) => ev.p(&pn),
        }
    }
    ev.end();
}

fn rt_ev<F: Ext>(ev: &mut Ev, lay: Lay, a: u128)
where
    F::Bits: BitsIo,
{
    let x: F = fb(a);
    ev.begin("fr", lay);
    ev.arg(a);
    ev.sep();
    let mut s = String::new();
    match guard(&mut || s = x.to_string()) {
        None => ev.t(s.as_bytes()),
        Some(pn) => ev.p(&pn),
    }
    let mut r: Option<Result<u128, String>> = None;
    match guard(&mut || r = Some(s.parse::<F>().map(tb).map_err(|e| e.to_string()))) {
        None => match r.unwrap() {
            Ok(v) => ev.ok(v),
            Err(m) => ev.err(&m),
        },
        Some(pn) => ev.p(&pn),
    }
    // Wrapping<F> displays like F
    let mut ws = String::new();
    match guard(&mut || ws = Wrapping(x).to_string()) {
        None => ev.t(ws.as_bytes()),
        Some(pn) => ev.p(&pn),
    }
    ev.end();
}

/// values whose remainder after d decimal digits sits just below / at / above a rounding boundary
fn gen_fmt_value(rng: &mut Rng, lay: Lay) -> u128 {
    if lay.f == 0 || rng.chance(1, 2) {
        return gen_round_operand(rng, lay);
    }
    // x ~ k / 10^d (+- few ulp) and ~ (k + 1/2) / 10^d: raw = round(k * 2^f / 10^d)
    let d = 1 + rng.below(8) as u32;
    let p10 = 10u128.pow(d);
    let two_k = 2 * rng.below(p10 as u64) as u128 + rng.below(2) as u128; // k or k + 1/2 in halves
    // raw fraction = two_k * 2^f / (2 * 10^d)
    let fr = if lay.f >= 100 {
        mul_shr(two_k << 20, divrem_256_128(1, 0, 2 * p10).map(|q| q.0).unwrap_or(0), 128 + 20 - lay.f)
    } else {
        (two_k << lay.f) / (2 * p10)
    };
    let ip = if lay.f >= lay.n { 0 } else { (gen_bits(rng, lay) >> lay.f) << lay.f };
    let v = (ip | (fr & mask(lay.f))).wrapping_add(rng.range(-2, 2) as i128 as u128);
    v & lay.mask()
}

fn drive<F: Ext>(ev: &mut Ev, args: &Args, lay: Lay)
where
    F::Bits: BitsIo,
{
    if lay.n == 8 && args.get_u64("exhaustive", 0) == 2 {
        // every value of an 8-bit layout under the full specification grid
        const PRECS: [Option<usize>; 10] = [None, Some(0), Some(1), Some(2), Some(3), Some(5), Some(8), Some(9), Some(20), Some(130)];
        const WS: [Option<usize>; 6] = [None, Some(0), Some(1), Some(7), Some(40), Some(150)];
        for a in 0..256u128 {
            rt_ev::<F>(ev, lay, a);
            for kind in 0..6u8 {
                for fs in 0..FLAGSETS.len() as u8 {
                    for w in WS.iter() {
                        for p in PRECS.iter() {
                            fmt_ev::<F>(ev, lay, a, kind, fs, *w, *p);
                        }
                    }
                }
            }
        }
        return;
    }
    let mut rng = args.rng_for(lay, 9);
    let exhaustive = lay.n == 8 && args.get_u64("exhaustive", 0) == 1;
    let count = if exhaustive { 256 } else { args.n };
    for it in 0..count {
        let a = if exhaustive { it as u128 } else { gen_fmt_value(&mut rng, lay) };
        rt_ev::<F>(ev, lay, a);
        let nspec = if exhaustive { 24 } else { 8 };
        for _ in 0..nspec {
            let kind = rng.below(6) as u8;
            let fs = rng.below(FLAGSETS.len() as u64) as u8;
            let w = WIDTHS[rng.below(WIDTHS.len() as u64) as usize];
            let p = match rng.below(8) {
                0 | 1 | 2 => None,
                3 => Some(0),
                4 => Some(1 + rng.below(4) as usize),
                5 => Some(rng.below(lay.f as u64 + 3) as usize),
                6 => Some(rng.below(60) as usize),
                _ => Some(rng.below(201) as usize),
            };
            fmt_ev::<F>(ev, lay, a, kind, fs, w, p);
        }
    }
    // round-trip only (cheap): every 2^k, 2^k +- 1 and their negations (the values whose shortest decimal form is longest or
    // shortest), plus random patterns from a separate PRNG stream.  Whether the default output still identifies the value depends
    // on the digit budget ceil(Frac * log10 2), i.e. on each Frac separately; a few percent of the values need the full budget.
    for k in 0..lay.n {
        for d in [0u128, 1, lay.mask()].iter() {
            let v = (1u128 << k).wrapping_add(*d) & lay.mask();
            rt_ev::<F>(ev, lay, v);
            if lay.signed {
                rt_ev::<F>(ev, lay, v.wrapping_neg() & lay.mask());
            }
        }
    }
    let mut rng2 = args.rng_for(lay, 109);
    for _ in 0..args.n * 4 {
        let a = if rng2.chance(1, 2) { rng2.next128() & lay.mask() } else { gen_bits(&mut rng2, lay) };
        rt_ev::<F>(ev, lay, a);
    }
    // Display of Wrapping<F> under the specification grid (separate PRNG stream)
    let mut rng3 = args.rng_for(lay, 110);
    for _ in 0..(args.n / 2).max(4) {
        let a = gen_fmt_value(&mut rng3, lay);
        let fs = rng3.below(FLAGSETS.len() as u64) as u8;
        let w = WIDTHS[rng3.below(WIDTHS.len() as u64) as usize];
        let p = match rng3.below(5) {
            0 => None,
            1 => Some(0),
            2 => Some(1 + rng3.below(4) as usize),
            3 => Some(rng3.below(lay.f as u64 + 3) as usize),
            _ => Some(rng3.below(60) as usize),
        };
        fw_ev::<F>(ev, lay, a, fs, w, p);
    }
}

fn main() {
    install_panic_hook();
    let args = Args::parse();
    let mut ev = Ev::new();
    if args.stdin {
        for l in read_stdin_lines() {
            let want = parse_lay(&l[1]);
            let a = parse_hex(&l[2]);
            macro_rules! one {
                ($fam:ident, $u:ident, $s:expr, $n:expr, $f:expr) => {
                    if (Lay::new($s, $n, $f)) == want {
                        if l[0] == "fr" {
                            rt_ev::<$fam<$u>>(&mut ev, want, a);
                        } else if l[0] == "fw" {
                            let w = if l[4] == "-" { None } else { Some(l[4].parse().unwrap()) };
                            let p = if l[5] == "-" { None } else { Some(l[5].parse().unwrap()) };
                            fw_ev::<$fam<$u>>(&mut ev, want, a, parse_hex(&l[3]) as u8, w, p);
                        } else {
                            let w = if l[5] == "-" { None } else { Some(l[5].parse().unwrap()) };
                            let p = if l[6] == "-" { None } else { Some(l[6].parse().unwrap()) };
                            fmt_ev::<$fam<$u>>(&mut ev, want, a, parse_hex(&l[3]) as u8, parse_hex(&l[4]) as u8, w, p);
                        }
                    }
                };
            }
            layouts!(one);
        }
        return;
    }
    let mut idx = 0u64;
    macro_rules! one {
        ($fam:ident, $u:ident, $s:expr, $n:expr, $f:expr) => {
            let lay = Lay::new($s, $n, $f);
            if args.want(idx, lay) {
                drive::<$fam<$u>>(&mut ev, &args, lay);
            }
            idx += 1;
        };
    }
    layouts!(one);
    let _ = idx;
}
