// Driver body: rounding methods (C06; corpus for C11).
use drv::*;

fn do_op<F: Ext>(ev: &mut Ev, lay: Lay, a: u128)
where
    F::Bits: BitsIo,
{
    let x: F = fb(a);
    ev.begin("round", lay);
    ev.arg(a);
    ev.sep();
    ev.rec_s(&mut || tbs(x.checked_ceil()));
    ev.rec_v(&mut || tb(x.saturating_ceil()));
    ev.rec_v(&mut || tb(x.wrapping_ceil()));
    ev.rec_o(&mut || tbo(x.overflowing_ceil()));
    ev.rec_v(&mut || tb(x.ceil()));
    ev.rec_s(&mut || tbs(x.checked_floor()));
    ev.rec_v(&mut || tb(x.saturating_floor()));
    ev.rec_v(&mut || tb(x.wrapping_floor()));
    ev.rec_o(&mut || tbo(x.overflowing_floor()));
    ev.rec_v(&mut || tb(x.floor()));
    ev.rec_s(&mut || tbs(x.checked_round()));
    ev.rec_v(&mut || tb(x.saturating_round()));
    ev.rec_v(&mut || tb(x.wrapping_round()));
    ev.rec_o(&mut || tbo(x.overflowing_round()));
    ev.rec_v(&mut || tb(x.round()));
    ev.rec_s(&mut || tbs(x.checked_round_ties_to_even()));
    ev.rec_v(&mut || tb(x.saturating_round_ties_to_even()));
    ev.rec_v(&mut || tb(x.wrapping_round_ties_to_even()));
    ev.rec_o(&mut || tbo(x.overflowing_round_ties_to_even()));
    ev.rec_v(&mut || tb(x.round_ties_to_even()));
    ev.rec_v(&mut || tb(x.round_to_zero()));
    ev.rec_v(&mut || tb(x.int()));
    ev.rec_v(&mut || tb(x.frac()));
    ev.end();
}

fn drive<F: Ext>(ev: &mut Ev, args: &Args, lay: Lay)
where
    F::Bits: BitsIo,
{
    if args.get_u64("exhaustive", 0) == 1 && lay.n <= 16 {
        for a in 0..(1u128 << lay.n) {
            do_op::<F>(ev, lay, a);
        }
        return;
    }
    let mut rng = args.rng_for(lay, 6);
    for _ in 0..args.n {
        let a = gen_round_operand(&mut rng, lay);
        do_op::<F>(ev, lay, a);
    }
}

fn main() {
    install_panic_hook();
    let args = Args::parse();
    let mut ev = Ev::new();
    if args.stdin {
        for l in read_stdin_lines() {
            let want = parse_lay(&l[1]);
            let a = parse_hex(&l[2]);
            macro_rules! one {
                ($fam:ident, $u:ident, $s:expr, $n:expr, $f:expr) => {
                    if (Lay::new($s, $n, $f)) == want {
                        do_op::<$fam<$u>>(&mut ev, want, a);
                    }
                };
            }
            layouts!(one);
        }
        return;
    }
    let mut idx = 0u64;
    macro_rules! one {
        ($fam:ident, $u:ident, $s:expr, $n:expr, $f:expr) => {
            let lay = Lay::new($s, $n, $f);
            if args.want(idx, lay) {
                drive::<$fam<$u>>(&mut ev, &args, lay);
            }
            idx += 1;
        };
    }
    layouts!(one);
    let _ = idx;
}
