// Driver body: parsing (C08; corpus for C11).  Literals come from stdin
// (`ps <layout> <radix> <hex-escaped literal>`), written by gen/c08.py from exact
// rational expansions; the driver only parses and logs.
use drv::*;

fn rec_parse<F: Fixed, E: core::fmt::Display>(ev: &mut Ev, f: &mut dyn FnMut() -> Result<F, E>)
where
    F::Bits: BitsIo,
{
    let mut r: Option<Result<u128, String>> = None;
    match guard(&mut || r = Some(f().map(tb).map_err(|e| e.to_string()))) {
        None => match r.unwrap() {
            Ok(v) => ev.ok(v),
            Err(m) => ev.err(&m),
        },
        Some(p) => ev.p(&p),
    }
}

fn rec_parse_o<F: Fixed, E: core::fmt::Display>(ev: &mut Ev, f: &mut dyn FnMut() -> Result<(F, bool), E>)
where
    F::Bits: BitsIo,
{
    let mut r: Option<Result<(u128, bool), String>> = None;
    match guard(&mut || r = Some(f().map(tbo).map_err(|e| e.to_string()))) {
        None => match r.unwrap() {
            Ok((v, o)) => ev.oko(v, o),
            Err(m) => ev.err(&m),
        },
        Some(p) => ev.p(&p),
    }
}

fn do_op<F: Ext>(ev: &mut Ev, lay: Lay, radix: u32, lit: &str)
where
    F::Bits: BitsIo,
{
    ev.begin("ps", lay);
    ev.arg(radix as u128);
    ev.arg_t(lit.as_bytes());
    ev.sep();
    match radix {
        10 => {
            rec_parse::<F, _>(ev, &mut || lit.parse::<F>());
            rec_parse::<F, _>(ev, &mut || F::saturating_from_str(lit));
            rec_parse::<F, _>(ev, &mut || F::wrapping_from_str(lit));
            rec_parse_o::<F, _>(ev, &mut || F::overflowing_from_str(lit));
            // Wrapping<F>: FromStr forwards to wrapping_from_str (C18)
            rec_parse::<F, _>(ev, &mut || lit.parse::<Wrapping<F>>().map(|w| w.0));
        }
        2 => {
            rec_parse::<F, _>(ev, &mut || F::from_str_binary(lit));
            rec_parse::<F, _>(ev, &mut || F::saturating_from_str_binary(lit));
            rec_parse::<F, _>(ev, &mut || F::wrapping_from_str_binary(lit));
            rec_parse_o::<F, _>(ev, &mut || F::overflowing_from_str_binary(lit));
            rec_parse::<F, _>(ev, &mut || Wrapping::<F>::from_str_binary(lit).map(|w| w.0));
        }
        8 => {
            rec_parse::<F, _>(ev, &mut || F::from_str_octal(lit));
            rec_parse::<F, _>(ev, &mut || F::saturating_from_str_octal(lit));
            rec_parse::<F, _>(ev, &mut || F::wrapping_from_str_octal(lit));
            rec_parse_o::<F, _>(ev, &mut || F::overflowing_from_str_octal(lit));
            rec_parse::<F, _>(ev, &mut || Wrapping::<F>::from_str_octal(lit).map(|w| w.0));
        }
        16 => {
            rec_parse::<F, _>(ev, &mut || F::from_str_hex(lit));
            rec_parse::<F, _>(ev, &mut || F::saturating_from_str_hex(lit));
            rec_parse::<F, _>(ev, &mut || F::wrapping_from_str_hex(lit));
            rec_parse_o::<F, _>(ev, &mut || F::overflowing_from_str_hex(lit));
            rec_parse::<F, _>(ev, &mut || Wrapping::<F>::from_str_hex(lit).map(|w| w.0));
        }
        _ => panic!("radix"),
    }
    ev.end();
}

fn main() {
    install_panic_hook();
    let _args = Args::parse();
    let mut ev = Ev::new();
    // always stdin-driven
    use std::io::BufRead;
    let stdin = std::io::stdin();
    let mut cur: Option<Lay> = None;
    let mut batch: Vec<(u32, String)> = Vec::new();
    fn flush(ev: &mut Ev, lay: Lay, batch: &mut Vec<(u32, String)>) {
        macro_rules! one {
            ($fam:ident, $u:ident, $s:expr, $n:expr, $f:expr) => {
                if (Lay::new($s, $n, $f)) == lay {
                    for (radix, lit) in batch.iter() {
                        do_op::<$fam<$u>>(ev, lay, *radix, lit);
                    }
                }
            };
        }
        layouts!(one);
        batch.clear();
    }
    for l in stdin.lock().lines() {
        let l = l.unwrap();
        let l = l.split("=>").next().unwrap().trim();
        if l.is_empty() || l.starts_with('#') {
            continue;
        }
        let t: Vec<&str> = l.split_whitespace().collect();
        if t[0] != "ps" {
            continue;
        }
        let lay = parse_lay(t[1]);
        if cur != Some(lay) {
            if let Some(c) = cur {
                flush(&mut ev, c, &mut batch);
            }
            cur = Some(lay);
        }
        let radix = parse_hex(t[2]) as u32;
        let bytes = hex_unescape(t[3]);
        match String::from_utf8(bytes) {
            Ok(s) => batch.push((radix, s)),
            Err(_) => {} // not a &str: cannot be handed to the API at all
        }
    }
    if let Some(c) = cur {
        flush(&mut ev, c, &mut batch);
    }
}
