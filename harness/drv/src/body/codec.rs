// Driver body: SCALE encoding, byte views, serde form (C10; corpus for C11).
use codec::{Decode, Encode, MaxEncodedLen};
use drv::*;

fn do_op<F>(ev: &mut Ev, lay: Lay, a: u128)
where
    F: Ext + Encode + Decode + MaxEncodedLen + serde::Serialize + serde::de::DeserializeOwned,
    F::Bits: BitsIo + Encode,
    F::Bytes: AsRef<[u8]> + Copy,
    Wrapping<F>: serde::Serialize + serde::de::DeserializeOwned,
{
    let x: F = fb(a);
    ev.begin("cd", lay);
    ev.arg(a);
    ev.sep();
    let mut enc: Vec<u8> = Vec::new();
    match guard(&mut || enc = x.encode()) {
        None => ev.t(&enc),
        Some(p) => ev.p(&p),
    }
    // the other spellings of the same encoding: using_encoded (storage / hashing path), encode_to,
    // size_hint-independent embedding in a tuple (prefix byte 7 must follow the value's bytes)
    let mut enc2: [Vec<u8>; 3] = [Vec::new(), Vec::new(), Vec::new()];
    match guard(&mut || {
        let a = x.using_encoded(|b| b.to_vec());
        let mut b = Vec::new();
        x.encode_to(&mut b);
        let c = (x, 7u8).encode();
        enc2 = [a, b, c];
    }) {
        None => enc2.iter().for_each(|b| ev.t(b)),
        Some(p) => ev.p(&p),
    }
    ev.rec_v(&mut || x.encoded_size() as u128);
    ev.rec_v(&mut || F::max_encoded_len() as u128);
    let mut benc: Vec<u8> = Vec::new();
    match guard(&mut || benc = x.to_bits().encode()) {
        None => ev.t(&benc),
        Some(p) => ev.p(&p),
    }
    // decode the oracle-independent little-endian bytes of the pattern (not the library's own output)
    let nbytes = (lay.n / 8) as usize;
    let le: Vec<u8> = (0..nbytes).map(|i| (a >> (8 * i)) as u8).collect();
    let mut dec: Option<Result<u128, ()>> = None;
    match guard(&mut || dec = Some(F::decode(&mut &le[..]).map(tb).map_err(|_| ()))) {
        None => match dec.unwrap() {
            Ok(v) => ev.ok(v),
            Err(()) => ev.err(""),
        },
        Some(p) => ev.p(&p),
    }
    // every proper prefix must fail to decode
    ev.rec_b(&mut || (0..nbytes).all(|k| F::decode(&mut &le[..k]).is_err()));
    // trailing junk is left in the input
    let mut junk = le.clone();
    junk.extend_from_slice(&[0xAB, 0xCD, 0xEF]);
    let mut r: Option<(Result<u128, ()>, usize)> = None;
    match guard(&mut || {
        let mut inp = &junk[..];
        let v = F::decode(&mut inp).map(tb).map_err(|_| ());
        r = Some((v, inp.len()));
    }) {
        None => match r.unwrap() {
            (Ok(v), rem) => ev.oko(v, rem == 3),
            (Err(()), _) => ev.err(""),
        },
        Some(p) => ev.p(&p),
    }
    // byte views
    let mut b3: [Vec<u8>; 3] = [Vec::new(), Vec::new(), Vec::new()];
    match guard(&mut || {
        b3 = [x.to_le_bytes().as_ref().to_vec(), x.to_be_bytes().as_ref().to_vec(), x.to_ne_bytes().as_ref().to_vec()];
    }) {
        None => b3.iter().for_each(|b| ev.t(b)),
        Some(p) => ev.p(&p),
    }
    ev.rec_v(&mut || tb(F::from_le_bytes(x.to_le_bytes())));
    ev.rec_v(&mut || tb(F::from_be_bytes(x.to_be_bytes())));
    ev.rec_v(&mut || tb(F::from_ne_bytes(x.to_ne_bytes())));
    ev.rec_v(&mut || tb(F::from_bits(x.to_bits())));
    // serde
    let mut js = String::new();
    match guard(&mut || js = serde_json::to_string(&x).unwrap_or_else(|e| format!("ERR {}", e))) {
        None => ev.t(js.as_bytes()),
        Some(p) => ev.p(&p),
    }
    let mut back: Option<Result<u128, ()>> = None;
    match guard(&mut || back = Some(serde_json::from_str::<F>(&js).map(tb).map_err(|_| ()))) {
        None => match back.unwrap() {
            Ok(v) => ev.ok(v),
            Err(()) => ev.err(""),
        },
        Some(p) => ev.p(&p),
    }
    // the calls the Serialize impl makes (struct name, declared field count, fields), for F and Wrapping<F>
    let mut tr = String::new();
    match guard(&mut || tr = drv::recser::trace(&x)) {
        None => ev.t(tr.as_bytes()),
        Some(p) => ev.p(&p),
    }
    let mut wtr = String::new();
    match guard(&mut || wtr = drv::recser::trace(&Wrapping(x))) {
        None => ev.t(wtr.as_bytes()),
        Some(p) => ev.p(&p),
    }
    // sequence form (what non-self-describing formats feed to the visitor): [bits]
    let seq = format!("[{}]", js.trim_start_matches("{\"bits\":").trim_end_matches('}'));
    let mut sback: Option<Result<u128, ()>> = None;
    match guard(&mut || sback = Some(serde_json::from_str::<F>(&seq).map(tb).map_err(|_| ()))) {
        None => match sback.unwrap() {
            Ok(v) => ev.ok(v),
            Err(()) => ev.err(""),
        },
        Some(p) => ev.p(&p),
    }
    let mut wjs = String::new();
    match guard(&mut || wjs = serde_json::to_string(&Wrapping(x)).unwrap_or_else(|e| format!("ERR {}", e))) {
        None => ev.t(wjs.as_bytes()),
        Some(p) => ev.p(&p),
    }
    let mut wback: Option<Result<u128, ()>> = None;
    match guard(&mut || wback = Some(serde_json::from_str::<Wrapping<F>>(&wjs).map(|w| tb(w.0)).map_err(|_| ()))) {
        None => match wback.unwrap() {
            Ok(v) => ev.ok(v),
            Err(()) => ev.err(""),
        },
        Some(p) => ev.p(&p),
    }
    // a non-self-describing format (bare field sequence, bincode / postcard style): F and Wrapping<F>
    let mut fs: Option<(Result<u128, String>, String)> = None;
    match guard(&mut || {
        let (r, log) = drv::recser::from_field_seq::<F>(a);
        fs = Some((r.map(tb), log));
    }) {
        None => {
            let (r, log) = fs.unwrap();
            ev.t(match &r { Ok(_) => log.clone(), Err(e) => format!("{} => ERR {}", log, e) }.as_bytes());
            match r {
                Ok(v) => ev.ok(v),
                Err(_) => ev.err(""),
            }
        }
        Some(p) => ev.p(&p),
    }
    let mut wfs: Option<Result<u128, String>> = None;
    match guard(&mut || wfs = Some(drv::recser::from_field_seq::<Wrapping<F>>(a).0.map(|w| tb(w.0)))) {
        None => match wfs.unwrap() {
            Ok(v) => ev.ok(v),
            Err(_) => ev.err(""),
        },
        Some(p) => ev.p(&p),
    }
    ev.end();
}

fn drive<F>(ev: &mut Ev, args: &Args, lay: Lay)
where
    F: Ext + Encode + Decode + MaxEncodedLen + serde::Serialize + serde::de::DeserializeOwned,
    F::Bits: BitsIo + Encode,
    F::Bytes: AsRef<[u8]> + Copy,
    Wrapping<F>: serde::Serialize + serde::de::DeserializeOwned,
{
    // the same seed for every Frac of a family: the claim "Frac never changes the
    // encoding" is checked on identical bit patterns across the family
    let fam = Lay::new(lay.signed, lay.n, 0);
    let mut rng = args.rng_for(fam, 10);
    if lay.n == 8 {
        for a in 0..256u128 {
            do_op::<F>(ev, lay, a);
        }
    }
    for _ in 0..args.n {
        let a = gen_bits(&mut rng, fam);
        do_op::<F>(ev, lay, a);
    }
}

fn main() {
    install_panic_hook();
    let args = Args::parse();
    let mut ev = Ev::new();
    if args.stdin {
        for l in read_stdin_lines() {
            let want = parse_lay(&l[1]);
            let a = parse_hex(&l[2]);
            macro_rules! one {
                ($fam:ident, $u:ident, $s:expr, $n:expr, $f:expr) => {
                    if (Lay::new($s, $n, $f)) == want {
                        do_op::<$fam<$u>>(&mut ev, want, a);
                    }
                };
            }
            layouts!(one);
        }
        return;
    }
    let mut idx = 0u64;
    macro_rules! one {
        ($fam:ident, $u:ident, $s:expr, $n:expr, $f:expr) => {
            let lay = Lay::new($s, $n, $f);
            if args.want(idx, lay) {
                drive::<$fam<$u>>(&mut ev, &args, lay);
            }
            idx += 1;
        };
    }
    layouts!(one);
    let _ = idx;
}
