//! Shared generic glue for the drivers.  Drivers call the public API of
//! `substrate_fixed` and log what came back; they never judge.

pub use substrate_fixed::traits::{Fixed, FixedSigned, FixedUnsigned};
pub use substrate_fixed::types::extra::*;
pub use substrate_fixed::{
    FixedI128, FixedI16, FixedI32, FixedI64, FixedI8, FixedU128, FixedU16, FixedU32, FixedU64,
    FixedU8, Wrapping,
};
pub use vfcore::*;

mod layouts;
mod wext;
pub use wext::WExt;
pub mod fmtx;
pub mod recser;
pub mod azx;
pub use azx::{az_fixed, rec_az, AzExt, AzR, AzTo};

/// bits -> value through the public `from_bits`
#[inline]
pub fn fb<F: Fixed>(x: u128) -> F
where
    F::Bits: BitsIo,
{
    F::from_bits(<F::Bits as BitsIo>::from_u128(x))
}

/// value -> (zero-extended) bits through the public `to_bits`
#[inline]
pub fn tb<F: Fixed>(x: F) -> u128
where
    F::Bits: BitsIo,
{
    x.to_bits().to_u128()
}

#[inline]
pub fn tbo<F: Fixed>(x: (F, bool)) -> (u128, bool)
where
    F::Bits: BitsIo,
{
    (tb(x.0), x.1)
}

#[inline]
pub fn tbs<F: Fixed>(x: Option<F>) -> Option<u128>
where
    F::Bits: BitsIo,
{
    x.map(tb)
}

/// API surface that exists on the concrete types but not on the `Fixed` trait:
/// by-reference operator impls, integer-on-the-left multiplication, the
/// signed-only and unsigned-only methods.  Implemented by forwarding to the
/// real operator / inherent method for each family.
pub trait Ext: Fixed + AzExt {
    const IS_SIGNED: bool;
    // by-reference operator spellings: (&a op &b, &a op b, a op &b) must all exist
    fn x_add_refs(a: &Self, b: &Self) -> [Self; 3];
    fn x_sub_refs(a: &Self, b: &Self) -> [Self; 3];
    fn x_mul_refs(a: &Self, b: &Self) -> [Self; 3];
    fn x_div_refs(a: &Self, b: &Self) -> [Self; 3];
    fn x_rem_refs(a: &Self, b: &Self) -> [Self; 3];
    fn x_add_assign_ref(a: Self, b: &Self) -> Self;
    fn x_sub_assign_ref(a: Self, b: &Self) -> Self;
    fn x_mul_assign_ref(a: Self, b: &Self) -> Self;
    fn x_div_assign_ref(a: Self, b: &Self) -> Self;
    fn x_rem_assign_ref(a: Self, b: &Self) -> Self;
    // integer right/left operands
    fn x_int_mul(i: Self::Bits, a: Self) -> Self;
    /// integer on the left by reference: i * &a, &i * a, &i * &a
    fn x_int_mul_refs(i: &Self::Bits, a: &Self) -> [Self; 3];
    /// a *= &i, a /= &i, a %= &i
    fn x_int_assign_refs(a: Self, i: &Self::Bits, op: u8) -> Self;
    fn x_mul_int_refs(a: &Self, i: &Self::Bits) -> [Self; 3];
    fn x_div_int_refs(a: &Self, i: &Self::Bits) -> [Self; 3];
    fn x_rem_int_refs(a: &Self, i: &Self::Bits) -> [Self; 3];
    // signed only (unreachable on unsigned families)
    fn x_neg(self) -> Self;
    fn x_neg_ref(a: &Self) -> Self;
    fn x_abs(self) -> Self;
    fn x_signum(self) -> Self;
    fn x_checked_abs(self) -> Option<Self>;
    fn x_saturating_abs(self) -> Self;
    fn x_wrapping_abs(self) -> Self;
    fn x_overflowing_abs(self) -> (Self, bool);
    fn x_is_positive(self) -> bool;
    fn x_is_negative(self) -> bool;
    // unsigned only
    fn x_is_power_of_two(self) -> bool;
    fn x_next_power_of_two(self) -> Self;
    fn x_checked_next_power_of_two(self) -> Option<Self>;
    // inherent (not on the trait)
    fn x_checked_rem_int(self, i: Self::Bits) -> Option<Self>;
    /// deprecated inherent forms (still public API)
    fn x_wrapping_rem_int(self, i: Self::Bits) -> Self;
    fn x_overflowing_rem_int(self, i: Self::Bits) -> (Self, bool);
    // the same methods through the FixedSigned / FixedUnsigned TRAITS (separate impls that delegate to the inherent ones)
    fn t_abs(self) -> Self;
    fn t_signum(self) -> Self;
    fn t_checked_abs(self) -> Option<Self>;
    fn t_saturating_abs(self) -> Self;
    fn t_wrapping_abs(self) -> Self;
    fn t_overflowing_abs(self) -> (Self, bool);
    fn t_is_power_of_two(self) -> bool;
    fn t_next_power_of_two(self) -> Self;
    fn t_checked_next_power_of_two(self) -> Option<Self>;
    // iter::Sum / iter::Product over values and over references (impls exist per concrete family only)
    fn x_sum_val(xs: &[Self]) -> Self;
    fn x_sum_ref(xs: &[Self]) -> Self;
    fn x_prod_val(xs: &[Self]) -> Self;
    fn x_prod_ref(xs: &[Self]) -> Self;
    // comparisons with the primitive on the left (impls exist per concrete family only)
    fn x_rev_cmp_int(&self, isigned: bool, m: u32, ib: u128) -> [u8; 7];
    fn x_rev_cmp_f32(&self, f: f32) -> [u8; 7];
    fn x_rev_cmp_f64(&self, f: f64) -> [u8; 7];
}

/// the six comparison operators and partial_cmp of `a ? b` as 7 characters
pub fn ord7<A: PartialOrd<B> + PartialEq<B>, B>(a: &A, b: &B) -> [u8; 7] {
    let c = |x: bool| if x { b'1' } else { b'0' };
    [
        c(a == b),
        c(a != b),
        c(a < b),
        c(a <= b),
        c(a > b),
        c(a >= b),
        match a.partial_cmp(b) {
            Some(core::cmp::Ordering::Less) => b'l',
            Some(core::cmp::Ordering::Equal) => b'e',
            Some(core::cmp::Ordering::Greater) => b'g',
            None => b'n',
        },
    ]
}

/// record a 7-character comparison outcome (or the panic)
pub fn rec_ord(ev: &mut Ev, f: &mut dyn FnMut() -> [u8; 7]) {
    let mut r = [b'?'; 7];
    match guard(&mut || r = f()) {
        None => {
            let mut s = String::from("C:");
            s.push_str(core::str::from_utf8(&r).unwrap());
            ev.raw(&s)
        }
        Some(p) => ev.p(&p),
    }
}

macro_rules! ext_common {
    ($Inner:ty) => {
        fn x_add_refs(a: &Self, b: &Self) -> [Self; 3] { [a + b, a + *b, *a + b] }
        fn x_sub_refs(a: &Self, b: &Self) -> [Self; 3] { [a - b, a - *b, *a - b] }
        fn x_mul_refs(a: &Self, b: &Self) -> [Self; 3] { [a * b, a * *b, *a * b] }
        fn x_div_refs(a: &Self, b: &Self) -> [Self; 3] { [a / b, a / *b, *a / b] }
        fn x_rem_refs(a: &Self, b: &Self) -> [Self; 3] { [a % b, a % *b, *a % b] }
        fn x_add_assign_ref(mut a: Self, b: &Self) -> Self { a += b; a }
        fn x_sub_assign_ref(mut a: Self, b: &Self) -> Self { a -= b; a }
        fn x_mul_assign_ref(mut a: Self, b: &Self) -> Self { a *= b; a }
        fn x_div_assign_ref(mut a: Self, b: &Self) -> Self { a /= b; a }
        fn x_rem_assign_ref(mut a: Self, b: &Self) -> Self { a %= b; a }
        fn x_int_mul(i: $Inner, a: Self) -> Self { i * a }
        fn x_int_mul_refs(i: &$Inner, a: &Self) -> [Self; 3] { [*i * a, i * *a, i * a] }
        fn x_int_assign_refs(mut a: Self, i: &$Inner, op: u8) -> Self {
            match op {
                0 => a *= i,
                1 => a /= i,
                _ => a %= i,
            }
            a
        }
        fn x_mul_int_refs(a: &Self, i: &$Inner) -> [Self; 3] { [a * i, a * *i, *a * i] }
        fn x_div_int_refs(a: &Self, i: &$Inner) -> [Self; 3] { [a / i, a / *i, *a / i] }
        fn x_rem_int_refs(a: &Self, i: &$Inner) -> [Self; 3] { [a % i, a % *i, *a % i] }
        fn x_checked_rem_int(self, i: $Inner) -> Option<Self> { self.checked_rem_int(i) }
        #[allow(deprecated)]
        fn x_wrapping_rem_int(self, i: $Inner) -> Self { self.wrapping_rem_int(i) }
        #[allow(deprecated)]
        fn x_overflowing_rem_int(self, i: $Inner) -> (Self, bool) { self.overflowing_rem_int(i) }
        fn x_rev_cmp_int(&self, isigned: bool, m: u32, ib: u128) -> [u8; 7] {
            match (isigned, m) {
                (true, 8) => ord7(&(ib as i8), self),
                (true, 16) => ord7(&(ib as i16), self),
                (true, 32) => ord7(&(ib as i32), self),
                (true, 64) => ord7(&(ib as i64), self),
                (true, 128) => ord7(&(ib as i128), self),
                (true, 0) => ord7(&(ib as isize), self),
                (false, 8) => ord7(&(ib as u8), self),
                (false, 16) => ord7(&(ib as u16), self),
                (false, 32) => ord7(&(ib as u32), self),
                (false, 64) => ord7(&(ib as u64), self),
                (false, 128) => ord7(&(ib as u128), self),
                (false, 0) => ord7(&(ib as usize), self),
                _ => unreachable!(),
            }
        }
        fn x_sum_val(xs: &[Self]) -> Self { xs.iter().copied().sum() }
        fn x_sum_ref(xs: &[Self]) -> Self { xs.iter().sum() }
        fn x_prod_val(xs: &[Self]) -> Self { xs.iter().copied().product() }
        fn x_prod_ref(xs: &[Self]) -> Self { xs.iter().product() }
        fn x_rev_cmp_f32(&self, f: f32) -> [u8; 7] { ord7(&f, self) }
        fn x_rev_cmp_f64(&self, f: f64) -> [u8; 7] { ord7(&f, self) }
    };
}

macro_rules! ext_signed {
    ($($F:ident, $Inner:ty, $Le:ident;)*) => {$(
        impl<Frac: $Le> Ext for $F<Frac> {
            const IS_SIGNED: bool = true;
            ext_common!($Inner);
            fn x_neg(self) -> Self { -self }
            fn x_neg_ref(a: &Self) -> Self { -a }
            fn x_abs(self) -> Self { self.abs() }
            fn x_signum(self) -> Self { self.signum() }
            fn x_checked_abs(self) -> Option<Self> { self.checked_abs() }
            fn x_saturating_abs(self) -> Self { self.saturating_abs() }
            fn x_wrapping_abs(self) -> Self { self.wrapping_abs() }
            fn x_overflowing_abs(self) -> (Self, bool) { self.overflowing_abs() }
            fn x_is_positive(self) -> bool { self.is_positive() }
            fn x_is_negative(self) -> bool { self.is_negative() }
            fn x_is_power_of_two(self) -> bool { unreachable!() }
            fn x_next_power_of_two(self) -> Self { unreachable!() }
            fn x_checked_next_power_of_two(self) -> Option<Self> { unreachable!() }
            fn t_abs(self) -> Self { <Self as FixedSigned>::abs(self) }
            fn t_signum(self) -> Self { <Self as FixedSigned>::signum(self) }
            fn t_checked_abs(self) -> Option<Self> { <Self as FixedSigned>::checked_abs(self) }
            fn t_saturating_abs(self) -> Self { <Self as FixedSigned>::saturating_abs(self) }
            fn t_wrapping_abs(self) -> Self { <Self as FixedSigned>::wrapping_abs(self) }
            fn t_overflowing_abs(self) -> (Self, bool) { <Self as FixedSigned>::overflowing_abs(self) }
            fn t_is_power_of_two(self) -> bool { unreachable!() }
            fn t_next_power_of_two(self) -> Self { unreachable!() }
            fn t_checked_next_power_of_two(self) -> Option<Self> { unreachable!() }
        }
    )*};
}

macro_rules! ext_unsigned {
    ($($F:ident, $Inner:ty, $Le:ident;)*) => {$(
        impl<Frac: $Le> Ext for $F<Frac> {
            const IS_SIGNED: bool = false;
            ext_common!($Inner);
            fn x_neg(self) -> Self { unreachable!() }
            fn x_neg_ref(_a: &Self) -> Self { unreachable!() }
            fn x_abs(self) -> Self { unreachable!() }
            fn x_signum(self) -> Self { unreachable!() }
            fn x_checked_abs(self) -> Option<Self> { unreachable!() }
            fn x_saturating_abs(self) -> Self { unreachable!() }
            fn x_wrapping_abs(self) -> Self { unreachable!() }
            fn x_overflowing_abs(self) -> (Self, bool) { unreachable!() }
            fn x_is_positive(self) -> bool { unreachable!() }
            fn x_is_negative(self) -> bool { unreachable!() }
            fn x_is_power_of_two(self) -> bool { self.is_power_of_two() }
            fn x_next_power_of_two(self) -> Self { self.next_power_of_two() }
            fn x_checked_next_power_of_two(self) -> Option<Self> { self.checked_next_power_of_two() }
            fn t_abs(self) -> Self { unreachable!() }
            fn t_signum(self) -> Self { unreachable!() }
            fn t_checked_abs(self) -> Option<Self> { unreachable!() }
            fn t_saturating_abs(self) -> Self { unreachable!() }
            fn t_wrapping_abs(self) -> Self { unreachable!() }
            fn t_overflowing_abs(self) -> (Self, bool) { unreachable!() }
            fn t_is_power_of_two(self) -> bool { <Self as FixedUnsigned>::is_power_of_two(self) }
            fn t_next_power_of_two(self) -> Self { <Self as FixedUnsigned>::next_power_of_two(self) }
            fn t_checked_next_power_of_two(self) -> Option<Self> { <Self as FixedUnsigned>::checked_next_power_of_two(self) }
        }
    )*};
}

ext_signed! {
    FixedI8, i8, LeEqU8; FixedI16, i16, LeEqU16; FixedI32, i32, LeEqU32;
    FixedI64, i64, LeEqU64; FixedI128, i128, LeEqU128;
}
ext_unsigned! {
    FixedU8, u8, LeEqU8; FixedU16, u16, LeEqU16; FixedU32, u32, LeEqU32;
    FixedU64, u64, LeEqU64; FixedU128, u128, LeEqU128;
}
