//! A recording serde `Serializer`: instead of producing bytes it records the calls a `Serialize` impl makes
//! (struct name, DECLARED field count, field names, integer values).  serde_json ignores the declared count, so a
//! wrong count (which breaks length-prefixed formats such as CBOR / MessagePack / bincode) is only visible here.
use serde::ser::{self, Impossible, Serialize};
use std::fmt;

#[derive(Debug)]
pub struct RecErr(pub String);
impl fmt::Display for RecErr {
    fn fmt(&self, f: &mut fmt::Formatter) -> fmt::Result {
        f.write_str(&self.0)
    }
}
impl std::error::Error for RecErr {}
impl ser::Error for RecErr {
    fn custom<T: fmt::Display>(msg: T) -> Self {
        RecErr(msg.to_string())
    }
}

pub struct Rec;
pub struct RecStruct {
    out: String,
}

macro_rules! ints {
    ($($m:ident $t:ty),*) => {$(
        fn $m(self, v: $t) -> Result<String, RecErr> { Ok(format!("int:{}", v)) }
    )*};
}
macro_rules! unsupported {
    ($($m:ident($($a:ty),*) -> $r:ty),*) => {$(
        fn $m(self $(, _: $a)*) -> Result<$r, RecErr> { Err(RecErr(concat!("unexpected call ", stringify!($m)).into())) }
    )*};
}

impl ser::Serializer for Rec {
    type Ok = String;
    type Error = RecErr;
    type SerializeSeq = Impossible<String, RecErr>;
    type SerializeTuple = Impossible<String, RecErr>;
    type SerializeTupleStruct = Impossible<String, RecErr>;
    type SerializeTupleVariant = Impossible<String, RecErr>;
    type SerializeMap = Impossible<String, RecErr>;
    type SerializeStruct = RecStruct;
    type SerializeStructVariant = Impossible<String, RecErr>;
    ints! { serialize_i8 i8, serialize_i16 i16, serialize_i32 i32, serialize_i64 i64, serialize_i128 i128,
            serialize_u8 u8, serialize_u16 u16, serialize_u32 u32, serialize_u64 u64, serialize_u128 u128 }
    unsupported! { serialize_bool(bool) -> String, serialize_f32(f32) -> String, serialize_f64(f64) -> String,
                   serialize_char(char) -> String, serialize_str(&str) -> String, serialize_bytes(&[u8]) -> String,
                   serialize_none() -> String, serialize_unit() -> String, serialize_unit_struct(&'static str) -> String,
                   serialize_unit_variant(&'static str, u32, &'static str) -> String,
                   serialize_seq(Option<usize>) -> Self::SerializeSeq, serialize_tuple(usize) -> Self::SerializeTuple,
                   serialize_tuple_struct(&'static str, usize) -> Self::SerializeTupleStruct,
                   serialize_tuple_variant(&'static str, u32, &'static str, usize) -> Self::SerializeTupleVariant,
                   serialize_map(Option<usize>) -> Self::SerializeMap,
                   serialize_struct_variant(&'static str, u32, &'static str, usize) -> Self::SerializeStructVariant }
    fn serialize_some<T: ?Sized + Serialize>(self, _: &T) -> Result<String, RecErr> {
        Err(RecErr("unexpected call serialize_some".into()))
    }
    fn serialize_newtype_struct<T: ?Sized + Serialize>(self, _: &'static str, _: &T) -> Result<String, RecErr> {
        Err(RecErr("unexpected call serialize_newtype_struct".into()))
    }
    fn serialize_newtype_variant<T: ?Sized + Serialize>(self, _: &'static str, _: u32, _: &'static str, _: &T) -> Result<String, RecErr> {
        Err(RecErr("unexpected call serialize_newtype_variant".into()))
    }
    fn serialize_struct(self, name: &'static str, len: usize) -> Result<RecStruct, RecErr> {
        Ok(RecStruct { out: format!("struct({},declared_len={})", name, len) })
    }
}

impl ser::SerializeStruct for RecStruct {
    type Ok = String;
    type Error = RecErr;
    fn serialize_field<T: ?Sized + Serialize>(&mut self, key: &'static str, value: &T) -> Result<(), RecErr> {
        let v = value.serialize(Rec)?;
        self.out.push_str(&format!(" field({}={})", key, v));
        Ok(())
    }
    fn end(self) -> Result<String, RecErr> {
        Ok(self.out + " end")
    }
}

/// the recorded call trace of `x.serialize(..)`, or `ERR <message>`
pub fn trace<T: Serialize>(x: &T) -> String {
    match x.serialize(Rec) {
        Ok(s) => s,
        Err(e) => format!("ERR {}", e),
    }
}
