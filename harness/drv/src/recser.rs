//! A recording serde `Serializer`: instead of producing bytes it records the calls a `Serialize` impl makes
//! (struct name, DECLARED field count, field names, integer values).  serde_json ignores the declared count, so a
//! wrong count (which breaks length-prefixed formats such as CBOR / MessagePack / bincode) is only visible here.
use serde::ser::{self, Impossible, Serialize};
use std::fmt;

#[derive(Debug)]
pub struct RecErr(pub String);
impl fmt::Display for RecErr {
    fn fmt(&self, f: &mut fmt::Formatter) -> fmt::Result {
        f.write_str(&self.0)
    }
}
impl std::error::Error for RecErr {}
impl ser::Error for RecErr {
    fn custom<T: fmt::Display>(msg: T) -> Self {
        RecErr(msg.to_string())
    }
}

pub struct Rec;
pub struct RecStruct {
    out: String,
}

macro_rules! ints {
    ($($m:ident $t:ty),*) => {$(
        fn $m(self, v: $t) -> Result<String, RecErr> { Ok(format!("int:{}", v)) }
    )*};
}
macro_rules! unsupported {
    ($($m:ident($($a:ty),*) -> $r:ty),*) => {$(
        fn $m(self $(, _: $a)*) -> Result<$r, RecErr> { Err(RecErr(concat!("unexpected call ", stringify!($m)).into())) }
    )*};
}

impl ser::Serializer for Rec {
    type Ok = String;
    type Error = RecErr;
    type SerializeSeq = Impossible<String, RecErr>;
    type SerializeTuple = Impossible<String, RecErr>;
    type SerializeTupleStruct = Impossible<String, RecErr>;
    type SerializeTupleVariant = Impossible<String, RecErr>;
    type SerializeMap = Impossible<String, RecErr>;
    type SerializeStruct = RecStruct;
    type SerializeStructVariant = Impossible<String, RecErr>;
    ints! { serialize_i8 i8, serialize_i16 i16, serialize_i32 i32, serialize_i64 i64, serialize_i128 i128,
            serialize_u8 u8, serialize_u16 u16, serialize_u32 u32, serialize_u64 u64, serialize_u128 u128 }
    unsupported! { serialize_bool(bool) -> String, serialize_f32(f32) -> String, serialize_f64(f64) -> String,
                   serialize_char(char) -> String, serialize_str(&str) -> String, serialize_bytes(&[u8]) -> String,
                   serialize_none() -> String, serialize_unit() -> String, serialize_unit_struct(&'static str) -> String,
                   serialize_unit_variant(&'static str, u32, &'static str) -> String,
                   serialize_seq(Option<usize>) -> Self::SerializeSeq, serialize_tuple(usize) -> Self::SerializeTuple,
                   serialize_tuple_struct(&'static str, usize) -> Self::SerializeTupleStruct,
                   serialize_tuple_variant(&'static str, u32, &'static str, usize) -> Self::SerializeTupleVariant,
                   serialize_map(Option<usize>) -> Self::SerializeMap,
                   serialize_struct_variant(&'static str, u32, &'static str, usize) -> Self::SerializeStructVariant }
    fn serialize_some<T: ?Sized + Serialize>(self, _: &T) -> Result<String, RecErr> {
        Err(RecErr("unexpected call serialize_some".into()))
    }
    fn serialize_newtype_struct<T: ?Sized + Serialize>(self, _: &'static str, _: &T) -> Result<String, RecErr> {
        Err(RecErr("unexpected call serialize_newtype_struct".into()))
    }
    fn serialize_newtype_variant<T: ?Sized + Serialize>(self, _: &'static str, _: u32, _: &'static str, _: &T) -> Result<String, RecErr> {
        Err(RecErr("unexpected call serialize_newtype_variant".into()))
    }
    fn serialize_struct(self, name: &'static str, len: usize) -> Result<RecStruct, RecErr> {
        Ok(RecStruct { out: format!("struct({},declared_len={})", name, len) })
    }
}

impl ser::SerializeStruct for RecStruct {
    type Ok = String;
    type Error = RecErr;
    fn serialize_field<T: ?Sized + Serialize>(&mut self, key: &'static str, value: &T) -> Result<(), RecErr> {
        let v = value.serialize(Rec)?;
        self.out.push_str(&format!(" field({}={})", key, v));
        Ok(())
    }
    fn end(self) -> Result<String, RecErr> {
        Ok(self.out + " end")
    }
}

/// the recorded call trace of `x.serialize(..)`, or `ERR <message>`
pub fn trace<T: Serialize>(x: &T) -> String {
    match x.serialize(Rec) {
        Ok(s) => s,
        Err(e) => format!("ERR {}", e),
    }
}

// ------------------------------------------------------------------------------------------------------------
/// A NON-SELF-DESCRIBING recording `Deserializer` (bincode / postcard style): the input is the bare sequence of a
/// struct's fields, here the one integer `bits`.  It can only honour hints that say what to read
/// (`deserialize_struct` / `_tuple` / `_tuple_struct` / `_newtype_struct`, then `deserialize_<int>` for the field);
/// `deserialize_any`, `_map`, `_seq`, `_identifier` ... fail as they do in such formats.  Every call is recorded.
use serde::de::{self, DeserializeSeed, Deserializer, SeqAccess, Visitor};
use std::cell::RefCell;

impl de::Error for RecErr {
    fn custom<T: fmt::Display>(msg: T) -> Self {
        RecErr(msg.to_string())
    }
}

#[derive(Clone, Copy)]
pub struct RecDe<'a> {
    bits: u128,
    log: &'a RefCell<String>,
    field: bool,
}

struct FieldSeq<'a> {
    de: RecDe<'a>,
    left: usize,
}

impl<'de, 'a> SeqAccess<'de> for FieldSeq<'a> {
    type Error = RecErr;
    fn next_element_seed<T: DeserializeSeed<'de>>(&mut self, seed: T) -> Result<Option<T::Value>, RecErr> {
        if self.left == 0 {
            return Ok(None);
        }
        self.left -= 1;
        seed.deserialize(RecDe { field: true, ..self.de }).map(Some)
    }
    /// exact number of REMAINING elements, as length-prefixed / fixed-arity binary formats report it (bincode, postcard,
    /// `serde::de::value::SeqDeserializer`, `serde_json::Value`); serde_json's text reader reports None
    fn size_hint(&self) -> Option<usize> {
        Some(self.left)
    }
}

macro_rules! de_refuse {
    ($($m:ident),*) => {$(
        fn $m<V: Visitor<'de>>(self, _: V) -> Result<V::Value, RecErr> {
            self.note(stringify!($m));
            Err(RecErr(concat!("format is not self-describing: cannot honour ", stringify!($m)).into()))
        }
    )*};
}
macro_rules! de_int {
    ($($m:ident $v:ident $t:ty),*) => {$(
        fn $m<V: Visitor<'de>>(self, v: V) -> Result<V::Value, RecErr> {
            self.note(stringify!($m));
            if !self.field {
                return Err(RecErr(concat!("top-level ", stringify!($m)).into()));
            }
            v.$v(self.bits as $t)
        }
    )*};
}

impl<'a> RecDe<'a> {
    fn note(&self, s: &str) {
        let mut l = self.log.borrow_mut();
        if !l.is_empty() {
            l.push(' ');
        }
        l.push_str(s);
    }
}

impl<'de, 'a> Deserializer<'de> for RecDe<'a> {
    type Error = RecErr;
    de_refuse! { deserialize_any, deserialize_bool, deserialize_f32, deserialize_f64, deserialize_char, deserialize_str,
                 deserialize_string, deserialize_bytes, deserialize_byte_buf, deserialize_option, deserialize_unit,
                 deserialize_seq, deserialize_map, deserialize_identifier, deserialize_ignored_any }
    de_int! { deserialize_i8 visit_i8 i8, deserialize_i16 visit_i16 i16, deserialize_i32 visit_i32 i32, deserialize_i64 visit_i64 i64,
              deserialize_i128 visit_i128 i128, deserialize_u8 visit_u8 u8, deserialize_u16 visit_u16 u16, deserialize_u32 visit_u32 u32,
              deserialize_u64 visit_u64 u64, deserialize_u128 visit_u128 u128 }
    fn deserialize_unit_struct<V: Visitor<'de>>(self, _: &'static str, _: V) -> Result<V::Value, RecErr> {
        self.note("deserialize_unit_struct");
        Err(RecErr("unit struct: nothing to read".into()))
    }
    fn deserialize_newtype_struct<V: Visitor<'de>>(self, name: &'static str, v: V) -> Result<V::Value, RecErr> {
        self.note(&format!("deserialize_newtype_struct({})", name));
        v.visit_newtype_struct(RecDe { field: true, ..self })
    }
    fn deserialize_tuple<V: Visitor<'de>>(self, len: usize, v: V) -> Result<V::Value, RecErr> {
        self.note(&format!("deserialize_tuple({})", len));
        v.visit_seq(FieldSeq { de: self, left: len })
    }
    fn deserialize_tuple_struct<V: Visitor<'de>>(self, name: &'static str, len: usize, v: V) -> Result<V::Value, RecErr> {
        self.note(&format!("deserialize_tuple_struct({},{})", name, len));
        v.visit_seq(FieldSeq { de: self, left: len })
    }
    fn deserialize_struct<V: Visitor<'de>>(self, name: &'static str, fields: &'static [&'static str], v: V) -> Result<V::Value, RecErr> {
        self.note(&format!("deserialize_struct({},[{}])", name, fields.join(",")));
        v.visit_seq(FieldSeq { de: self, left: fields.len() })
    }
    fn deserialize_enum<V: Visitor<'de>>(self, _: &'static str, _: &'static [&'static str], _: V) -> Result<V::Value, RecErr> {
        self.note("deserialize_enum");
        Err(RecErr("enum: no variant index in the input".into()))
    }
    fn is_human_readable(&self) -> bool {
        false
    }
}

/// decode a `T` from the bare field sequence [bits]; returns (value or error, recorded calls)
pub fn from_field_seq<T: de::DeserializeOwned>(bits: u128) -> (Result<T, String>, String) {
    let log = RefCell::new(String::new());
    let r = T::deserialize(RecDe { bits, log: &log, field: false }).map_err(|e| e.0);
    (r, log.into_inner())
}
