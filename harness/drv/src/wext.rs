//! `Wrapping<F>` API surface that only exists for concrete families (bitwise
//! by-reference forms, integer right-hand sides, the 12 shift-amount types,
//! signed-only / unsigned-only methods).  Pure forwarding; no judging.
use crate::*;

pub trait WExt: Ext {
    /// op: 0 and, 1 or, 2 xor; returns w op w, &w op w, w op &w, &w op &w, w op= w, w op= &w
    fn w_bit(op: u8, a: Self, b: Self) -> [Self; 6];
    /// !w, !&w
    fn w_not(a: Self) -> [Self; 2];
    /// op: 0 mul, 1 div, 2 rem by an integer; the six spellings as for w_bit
    fn w_int(op: u8, a: Self, i: Self::Bits) -> [Self; 6];
    /// dir: 0 shl, 1 shr; ty: index into the 12 shift amount types; the six spellings
    fn w_shift(dir: u8, ty: u8, amt: i128, a: Self) -> [Self; 6];
    /// signed: [abs, signum], flags [is_positive, is_negative]; unsigned: [next_power_of_two, -], [is_power_of_two, false]
    fn w_sign_methods(a: Self) -> ([Self; 2], [bool; 2]);
}

macro_rules! six {
    ($w:ident, $r:ident, $op:tt, $opa:tt) => {{
        let mut c = $w;
        c $opa $r;
        let mut d = $w;
        d $opa &$r;
        [($w $op $r).0, (&$w $op $r).0, ($w $op &$r).0, (&$w $op &$r).0, c.0, d.0]
    }};
}

macro_rules! shift_ty {
    ($w:ident, $dir:ident, $amt:ident, $t:ty) => {{
        let k = $amt as $t;
        if $dir == 0 { six!($w, k, <<, <<=) } else { six!($w, k, >>, >>=) }
    }};
}

macro_rules! wext_common {
    ($Inner:ty) => {
        fn w_bit(op: u8, a: Self, b: Self) -> [Self; 6] {
            let w = Wrapping(a);
            let r = Wrapping(b);
            match op {
                0 => six!(w, r, &, &=),
                1 => six!(w, r, |, |=),
                _ => six!(w, r, ^, ^=),
            }
        }
        fn w_not(a: Self) -> [Self; 2] {
            let w = Wrapping(a);
            [(!w).0, (!&w).0]
        }
        fn w_int(op: u8, a: Self, i: $Inner) -> [Self; 6] {
            let w = Wrapping(a);
            match op {
                0 => six!(w, i, *, *=),
                1 => six!(w, i, /, /=),
                _ => six!(w, i, %, %=),
            }
        }
        fn w_shift(dir: u8, ty: u8, amt: i128, a: Self) -> [Self; 6] {
            let w = Wrapping(a);
            match ty {
                0 => shift_ty!(w, dir, amt, i8),
                1 => shift_ty!(w, dir, amt, i16),
                2 => shift_ty!(w, dir, amt, i32),
                3 => shift_ty!(w, dir, amt, i64),
                4 => shift_ty!(w, dir, amt, i128),
                5 => shift_ty!(w, dir, amt, isize),
                6 => shift_ty!(w, dir, amt, u8),
                7 => shift_ty!(w, dir, amt, u16),
                8 => shift_ty!(w, dir, amt, u32),
                9 => shift_ty!(w, dir, amt, u64),
                10 => shift_ty!(w, dir, amt, u128),
                _ => shift_ty!(w, dir, amt, usize),
            }
        }
    };
}

macro_rules! wext_signed {
    ($($F:ident, $Inner:ty, $Le:ident;)*) => {$(
        impl<Frac: $Le> WExt for $F<Frac> {
            wext_common!($Inner);
            fn w_sign_methods(a: Self) -> ([Self; 2], [bool; 2]) {
                let w = Wrapping(a);
                ([w.abs().0, w.signum().0], [w.is_positive(), w.is_negative()])
            }
        }
    )*};
}
macro_rules! wext_unsigned {
    ($($F:ident, $Inner:ty, $Le:ident;)*) => {$(
        impl<Frac: $Le> WExt for $F<Frac> {
            wext_common!($Inner);
            fn w_sign_methods(a: Self) -> ([Self; 2], [bool; 2]) {
                let w = Wrapping(a);
                ([w.next_power_of_two().0, a], [w.is_power_of_two(), false])
            }
        }
    )*};
}
wext_signed! {
    FixedI8, i8, LeEqU8; FixedI16, i16, LeEqU16; FixedI32, i32, LeEqU32;
    FixedI64, i64, LeEqU64; FixedI128, i128, LeEqU128;
}
wext_unsigned! {
    FixedU8, u8, LeEqU8; FixedU16, u16, LeEqU16; FixedU32, u32, LeEqU32;
    FixedU64, u64, LeEqU64; FixedU128, u128, LeEqU128;
}
