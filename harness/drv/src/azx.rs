//! The `az` cast traits (`Cast`, `CheckedCast`, `SaturatingCast`, `WrappingCast`,
//! `OverflowingCast`, `StaticCast`; crate feature `az`, src/cast.rs) are a second
//! public spelling of every conversion of C04 / C05.  The impls exist per concrete
//! family, so they are reached through this forwarding trait (like `Ext`).
#![allow(deprecated)] // StaticCast is deprecated in az 0.3.1 but still implemented and exported by the crate

use crate::*;
use az::{Cast, CheckedCast, OverflowingCast, SaturatingCast, StaticCast, WrappingCast};

/// one recorded cast outcome
pub enum AzR {
    V(u128),
    S(Option<u128>),
    O(u128, bool),
}

/// record an `AzR`-returning call (panic captured like every other call)
pub fn rec_az(ev: &mut Ev, form: u8, f: &mut dyn FnMut() -> AzR) {
    match form {
        1 | 5 => ev.rec_s(&mut || match f() {
            AzR::S(v) => v,
            _ => unreachable!(),
        }),
        4 => ev.rec_o(&mut || match f() {
            AzR::O(v, o) => (v, o),
            _ => unreachable!(),
        }),
        _ => ev.rec_v(&mut || match f() {
            AzR::V(v) => v,
            _ => unreachable!(),
        }),
    }
}

/// form: 0 cast, 1 checked_cast, 2 saturating_cast, 3 wrapping_cast, 4 overflowing_cast, 5 static_cast
macro_rules! az_forms {
    ($x:expr, $form:expr, $D:ty, $conv:expr) => {
        match $form {
            0 => AzR::V($conv(Cast::<$D>::cast($x))),
            1 => AzR::S(CheckedCast::<$D>::checked_cast($x).map($conv)),
            2 => AzR::V($conv(SaturatingCast::<$D>::saturating_cast($x))),
            3 => AzR::V($conv(WrappingCast::<$D>::wrapping_cast($x))),
            4 => {
                let (v, o) = OverflowingCast::<$D>::overflowing_cast($x);
                AzR::O($conv(v), o)
            }
            _ => AzR::S(StaticCast::<$D>::static_cast($x).map($conv)),
        }
    };
}

pub trait AzExt: Sized {
    fn az_to_int(self, form: u8, isigned: bool, m: u32) -> AzR;
    fn az_from_int(form: u8, isigned: bool, m: u32, ib: u128) -> AzR;
    fn az_from_bool(form: u8, b: bool) -> AzR;
    fn az_to_float(self, form: u8, w: u32) -> AzR;
    fn az_from_float(form: u8, w: u32, fbits: u64) -> AzR;
}

macro_rules! az_ext {
    ($($F:ident, $Le:ident;)*) => {$(
        impl<Frac: $Le> AzExt for $F<Frac> {
            fn az_to_int(self, form: u8, isigned: bool, m: u32) -> AzR {
                match (isigned, m) {
                    (true, 8) => az_forms!(self, form, i8, |v: i8| v.to_u128()),
                    (true, 16) => az_forms!(self, form, i16, |v: i16| v.to_u128()),
                    (true, 32) => az_forms!(self, form, i32, |v: i32| v.to_u128()),
                    (true, 64) => az_forms!(self, form, i64, |v: i64| v.to_u128()),
                    (true, 128) => az_forms!(self, form, i128, |v: i128| v.to_u128()),
                    (true, 0) => az_forms!(self, form, isize, |v: isize| v.to_u128()),
                    (false, 8) => az_forms!(self, form, u8, |v: u8| v.to_u128()),
                    (false, 16) => az_forms!(self, form, u16, |v: u16| v.to_u128()),
                    (false, 32) => az_forms!(self, form, u32, |v: u32| v.to_u128()),
                    (false, 64) => az_forms!(self, form, u64, |v: u64| v.to_u128()),
                    (false, 128) => az_forms!(self, form, u128, |v: u128| v.to_u128()),
                    (false, 0) => az_forms!(self, form, usize, |v: usize| v.to_u128()),
                    _ => unreachable!(),
                }
            }
            fn az_from_int(form: u8, isigned: bool, m: u32, ib: u128) -> AzR {
                let c = |v: Self| tb(v);
                match (isigned, m) {
                    (true, 8) => az_forms!(ib as i8, form, Self, c),
                    (true, 16) => az_forms!(ib as i16, form, Self, c),
                    (true, 32) => az_forms!(ib as i32, form, Self, c),
                    (true, 64) => az_forms!(ib as i64, form, Self, c),
                    (true, 128) => az_forms!(ib as i128, form, Self, c),
                    (true, 0) => az_forms!(ib as isize, form, Self, c),
                    (false, 8) => az_forms!(ib as u8, form, Self, c),
                    (false, 16) => az_forms!(ib as u16, form, Self, c),
                    (false, 32) => az_forms!(ib as u32, form, Self, c),
                    (false, 64) => az_forms!(ib as u64, form, Self, c),
                    (false, 128) => az_forms!(ib as u128, form, Self, c),
                    (false, 0) => az_forms!(ib as usize, form, Self, c),
                    _ => unreachable!(),
                }
            }
            fn az_from_bool(form: u8, b: bool) -> AzR {
                az_forms!(b, form, Self, |v: Self| tb(v))
            }
            fn az_to_float(self, form: u8, w: u32) -> AzR {
                if w == 32 {
                    az_forms!(self, form, f32, |v: f32| v.to_bits() as u128)
                } else {
                    az_forms!(self, form, f64, |v: f64| v.to_bits() as u128)
                }
            }
            fn az_from_float(form: u8, w: u32, fbits: u64) -> AzR {
                if w == 32 {
                    az_forms!(f32::from_bits(fbits as u32), form, Self, |v: Self| tb(v))
                } else {
                    az_forms!(f64::from_bits(fbits), form, Self, |v: Self| tb(v))
                }
            }
        }
    )*};
}

az_ext! {
    FixedI8, LeEqU8; FixedI16, LeEqU16; FixedI32, LeEqU32; FixedI64, LeEqU64; FixedI128, LeEqU128;
    FixedU8, LeEqU8; FixedU16, LeEqU16; FixedU32, LeEqU32; FixedU64, LeEqU64; FixedU128, LeEqU128;
}

/// fixed -> fixed through the six cast traits (bounds are resolved at the concrete instantiation site)
pub fn az_fixed<S, D>(s: S, form: u8) -> AzR
where
    S: Fixed + Cast<D> + CheckedCast<D> + SaturatingCast<D> + WrappingCast<D> + OverflowingCast<D> + StaticCast<D>,
    D: Fixed,
    D::Bits: BitsIo,
{
    az_forms!(s, form, D, |v: D| tb(v))
}

/// bound alias for the fixed -> fixed casts
pub trait AzTo<D>: Cast<D> + CheckedCast<D> + SaturatingCast<D> + WrappingCast<D> + OverflowingCast<D> + StaticCast<D> {}
impl<S, D> AzTo<D> for S where S: Cast<D> + CheckedCast<D> + SaturatingCast<D> + WrappingCast<D> + OverflowingCast<D> + StaticCast<D> {}
