#!/usr/bin/env python3
"""Generates (a) drv/src/bin/fromto.rs: concrete From / LossyFrom conversions for type pairs on the
EDGE of the legal region (equal integer bits, equal Frac, unsigned->signed needing exactly one more bit),
and (b) probes/src/bin/probe_NN.rs: one-line programs using a pair ONE STEP OUTSIDE the legal region.
A probe is expected NOT to compile (E0277).  If a loosened trait bound lets one compile, it is run and
prints ordinary `fx` events, which the C04 monitor judges like any other (the value will not fit / will
lose bits => VIOLATION with a runtime witness).  Deterministic; output committed."""
import os

HERE = os.path.dirname(os.path.abspath(__file__))
W = [8, 16, 32, 64, 128]


def fx(signed, n, f):
    return "Fixed%s%d<U%d>" % ("I" if signed else "U", n, f), "%s%d.%d" % ("i" if signed else "u", n, f)


def it(signed, n):
    return "%s%d" % ("i" if signed else "u", n), "%s%d.0" % ("i" if signed else "u", n)


def legal_pairs():
    out = []   # (kind, src(ty,name), dst(ty,name))
    for ws in W:
        for wd in W:
            for fs in sorted({0, 1, ws // 2, ws - 1, ws}):
                isrc = ws - fs
                # --- LossyFrom fixed->fixed: any widths, IntSrc <= IntDst (U->I: IntSrc <= IntDst-1)
                for (ss, ds) in ((True, True), (False, False), (False, True)):
                    need = isrc + (1 if (not ss and ds) else 0)
                    fd = wd - need                      # edge: exactly enough integer bits
                    if 0 <= fd <= wd:
                        out.append(("lossy", fx(ss, ws, fs), fx(ds, wd, fd)))
                        # --- From additionally needs wd > ws and fs <= fd
                        if wd > ws and fs <= fd:
                            out.append(("from", fx(ss, ws, fs), fx(ds, wd, fd)))
                    # edge on the Frac side: fd == fs, integer bits strictly larger
                    if wd > ws and fs <= wd - need:
                        out.append(("from", fx(ss, ws, fs), fx(ds, wd, fs)))
    # --- integers -> fixed (From and LossyFrom): SrcBits <= IntDst (U->I: <= IntDst-1); same width only Frac 0
    for wi in W:
        for wd in W:
            for (ss, ds) in ((True, True), (False, False), (False, True)):
                need = wi + (1 if (not ss and ds) else 0)
                if wd > wi and wd - need >= 0:
                    out.append(("from", it(ss, wi), fx(ds, wd, wd - need)))
                    out.append(("lossy", it(ss, wi), fx(ds, wd, wd - need)))
                    out.append(("from", it(ss, wi), fx(ds, wd, 0)))
                if wd == wi and ss == ds:
                    out.append(("from", it(ss, wi), fx(ds, wd, 0)))
                    out.append(("lossy", it(ss, wi), fx(ds, wd, 0)))
    # --- fixed -> integers: From only for Frac = 0 (same width same sign, wider same sign, wider U->I); LossyFrom IntSrc <= bits
    for ws in W:
        for wi in W:
            for (ss, ds) in ((True, True), (False, False), (False, True)):
                if (wi == ws and ss == ds) or wi > ws:
                    out.append(("from", fx(ss, ws, 0), it(ds, wi)))
                need_bits = wi - (1 if (not ss and ds) else 0)
                for fs in sorted({0, ws // 2, ws}):
                    if ws - fs == need_bits or (fs == ws and need_bits >= 0):
                        out.append(("lossy", fx(ss, ws, fs), it(ds, wi)))
                fs = ws - need_bits
                if 0 <= fs <= ws:
                    out.append(("lossy", fx(ss, ws, fs), it(ds, wi)))
    # --- pointer-sized integers (found unexecuted by bin/vcov-inst): From<Fixed<U0>> for usize / isize exists for the 8- and 16-bit
    # sources only (fixed_to_int! ... -> (usize, isize)), LossyFrom<Fixed> for usize / isize when the integer bits fit 16 / 15 bits
    # (the impl bounds assume a pointer width of at least 16).  Logged under the names u64.0 / i64.0 (values are preserved).
    PU, PI = ("usize", "u64.0"), ("isize", "i64.0")
    out += [("from", fx(False, 8, 0), PU), ("from", fx(False, 8, 0), PI), ("from", fx(True, 8, 0), PI),
            ("from", fx(False, 16, 0), PU), ("from", fx(True, 16, 0), PI)]
    for ws in W:
        for (ss, dst, bits) in ((False, PU, 16), (True, PI, 16), (False, PI, 15)):
            fs = ws - bits
            if 0 <= fs <= ws:
                out.append(("lossy", fx(ss, ws, fs), dst))
            if ws <= bits:
                out.append(("lossy", fx(ss, ws, 0), dst))
                out.append(("lossy", fx(ss, ws, ws), dst))
    # de-duplicate, keep order
    seen, res = set(), []
    for e in out:
        # key on the TYPES: an integer is logged under the name of its zero-fraction layout ("i16.0"), which is also the name
        # of FixedI16<U0>; keying on names silently dropped every integer -> fixed and Fixed<U0> -> integer From pair
        k = (e[0], e[1][0], e[2][0])
        if k not in seen and e[1][0] != e[2][0]:
            seen.add(k)
            res.append(e)
    return res


FLOAT_FROM = [("I8", 8, True, 32), ("I16", 16, True, 32), ("U8", 8, False, 32), ("U16", 16, False, 32),
              ("I8", 8, True, 64), ("I16", 16, True, 64), ("I32", 32, True, 64), ("U8", 8, False, 64), ("U16", 16, False, 64), ("U32", 32, False, 64)]


def write_fromto():
    L = ["// GENERATED by gen_fromto.py -- do not edit\n",
         "// Legal From / LossyFrom conversions on the edge of the legal region (C04).\n",
         "use drv::*;\nuse substrate_fixed::traits::{LossyFrom, LossyInto};\n\n",
         "fn vals(rng: &mut Rng, l: Lay, n: u64) -> Vec<u128> {\n"
         "    let mut v = vec![0, 1, l.max_bits(), l.min_bits(), l.mask(), l.max_bits().wrapping_sub(1), l.min_bits().wrapping_add(1)];\n"
         "    for _ in 0..n { v.push(gen_bits(rng, l)); }\n    v\n}\n\n",
         "macro_rules! one {\n"
         "    ($ev:ident, $args:ident, $kind:literal, $S:ty, $sl:literal, $SB:ty, $D:ty, $dl:literal, $DB:ty, $conv:expr, $mk:expr, $bits:expr) => {{\n"
         "        let ls = parse_lay($sl);\n"
         "        let mut rng = $args.rng_for(ls, 77);\n"
         "        for a in vals(&mut rng, ls, $args.n) {\n"
         "            let src: $S = $mk(<$SB as BitsIo>::from_u128(a));\n"
         "            $ev.begin2(\"fx\", $kind);\n            $ev.arg_s($sl);\n            $ev.arg_s($dl);\n            $ev.arg(a);\n            $ev.sep();\n"
         "            $ev.rec_v(&mut || { let d: $D = $conv(src); BitsIo::to_u128($bits(d)) });\n"
         "            $ev.end();\n        }\n    }};\n}\n\n",
         "fn main() {\n    install_panic_hook();\n    let args = Args::parse();\n    let mut ev = Ev::new();\n"]
    prims = {"i": "i", "u": "u"}
    for (kind, (sty, sname), (dty, dname)) in legal_pairs():
        s_int = not sty.startswith("Fixed")
        d_int = not dty.startswith("Fixed")
        sb = sty if s_int else ("%s%s" % (sname[0], sname[1:].split(".")[0]))
        db = dty if d_int else ("%s%s" % (dname[0], dname[1:].split(".")[0]))
        mk = "(|b| b)" if s_int else ("<%s>::from_bits" % sty)
        bits = "(|d| d)" if d_int else ("(|d: %s| d.to_bits())" % dty)
        conv = ("<%s as From<%s>>::from" % (dty, sty)) if kind == "from" else ("<%s as LossyFrom<%s>>::lossy_from" % (dty, sty))
        L.append("    one!(ev, args, \"%s\", %s, \"%s\", %s, %s, \"%s\", %s, %s, %s, %s);\n" % (kind, sty, sname, sb, dty, dname, db, conv, mk, bits))
        # the Into / LossyInto spellings (blanket impls) on every 7th pair
        if len(L) % 7 == 0:
            conv2 = ("(|s: %s| -> %s { s.into() })" % (sty, dty)) if kind == "from" else ("(|s: %s| -> %s { LossyInto::lossy_into(s) })" % (sty, dty))
            L.append("    one!(ev, args, \"%s\", %s, \"%s\", %s, %s, \"%s\", %s, %s, %s, %s);\n" % (kind, sty, sname, sb, dty, dname, db, conv2, mk, bits))
    # fixed -> float From (lossless) on all Frac edges
    L.append("    // fixed -> float: From (documented lossless) and LossyFrom\n")
    for (fam, n, signed, w) in FLOAT_FROM:
        for f in range(0, n + 1):  # every Frac: the impls are generic over Frac, a slip can sit at any single value
            sty, sname = fx(signed, n, f)
            sb = "%s%d" % ("i" if signed else "u", n)
            L.append("    {\n        let ls = parse_lay(\"%s\");\n        let mut rng = args.rng_for(ls, 78);\n        for a in vals(&mut rng, ls, args.n) {\n"
                     "            let src: %s = <%s>::from_bits(<%s as BitsIo>::from_u128(a));\n"
                     "            ev.begin2(\"fxf\", \"from\");\n            ev.arg_s(\"%s\");\n            ev.arg_s(\"%d\");\n            ev.arg(a);\n            ev.sep();\n"
                     "            ev.rec_v(&mut || f%d::from(src).to_bits() as u128);\n            ev.rec_v(&mut || f%d::lossy_from(src).to_bits() as u128);\n            ev.end();\n        }\n    }\n"
                     % (sname, sty, sty, sb, sname, w, w, w))
    # bool -> fixed: From / LossyFrom exist when 1 is representable (unsigned: >= 1 integer bit, signed: >= 2); the edge Frac values
    L.append("    // bool -> fixed: From and LossyFrom (logged as a u8.0 source holding 0 / 1)\n")
    for n in W:
        for signed in (True, False):
            need = 2 if signed else 1
            for f in sorted({0, 1, n // 2, n - need - 1, n - need}):
                if f < 0 or f > n - need:
                    continue
                dty, dname = fx(signed, n, f)
                for kind, conv in (("from", "<%s as From<bool>>::from" % dty), ("lossy", "<%s as LossyFrom<bool>>::lossy_from" % dty)):
                    L.append("    for b in [false, true].iter() {\n        let b = *b;\n        ev.begin2(\"fx\", \"%s\");\n        ev.arg_s(\"u8.0\");\n"
                             "        ev.arg_s(\"%s\");\n        ev.arg(b as u128);\n        ev.sep();\n"
                             "        ev.rec_v(&mut || BitsIo::to_u128(%s(b).to_bits()));\n        ev.end();\n    }\n" % (kind, dname, conv))
    L.append("}\n")
    open(os.path.join(HERE, "drv/src/bin/fromto.rs"), "w").write("".join(L))
    return len(legal_pairs())


def gen_probes():
    """one step outside the legal region, for EVERY width pair (the impls are generated per width pair by
    separate macro invocations, so a loosened bound in one invocation only shows for that pair)"""
    P = []
    for ws in W:
        for wd in W:
            if wd > ws:
                # From fixed->fixed
                fs = ws // 2
                isrc = ws - fs
                # same sign: one integer bit short
                fd = wd - isrc + 1
                if fd <= wd:
                    P.append(("from", "FixedI%d<U%d>" % (ws, fs), "i%d.%d" % (ws, fs), "FixedI%d<U%d>" % (wd, fd), "i%d.%d" % (wd, fd), "From: %d integer bits into %d" % (isrc, isrc - 1)))
                    P.append(("from", "FixedU%d<U%d>" % (ws, fs), "u%d.%d" % (ws, fs), "FixedU%d<U%d>" % (wd, fd), "u%d.%d" % (wd, fd), "From: %d integer bits into %d" % (isrc, isrc - 1)))
                # unsigned -> signed with EQUAL integer bits (needs one more)
                fd = wd - isrc
                P.append(("from", "FixedU%d<U%d>" % (ws, fs), "u%d.%d" % (ws, fs), "FixedI%d<U%d>" % (wd, fd), "i%d.%d" % (wd, fd), "From: unsigned %d integer bits into signed %d" % (isrc, isrc)))
                # fractional bit lost
                P.append(("from", "FixedI%d<U%d>" % (ws, ws), "i%d.%d" % (ws, ws), "FixedI%d<U%d>" % (wd, ws - 1), "i%d.%d" % (wd, ws - 1), "From would lose a fractional bit"))
                # signed -> unsigned
                P.append(("from", "FixedI%d<U%d>" % (ws, fs), "i%d.%d" % (ws, fs), "FixedU%d<U%d>" % (wd, fs), "u%d.%d" % (wd, fs), "From: signed into unsigned"))
                # integer -> fixed
                P.append(("from", "u%d" % ws, "u%d.0" % ws, "FixedI%d<U%d>" % (wd, wd - ws), "i%d.%d" % (wd, wd - ws), "From<u%d>: into signed %d integer bits" % (ws, ws)))
                P.append(("from", "i%d" % ws, "i%d.0" % ws, "FixedI%d<U%d>" % (wd, wd - ws + 1), "i%d.%d" % (wd, wd - ws + 1), "From<i%d>: into %d integer bits" % (ws, ws - 1)))
                P.append(("from", "u%d" % ws, "u%d.0" % ws, "FixedU%d<U%d>" % (wd, wd - ws + 1), "u%d.%d" % (wd, wd - ws + 1), "From<u%d>: into %d integer bits" % (ws, ws - 1)))
                # fixed -> integer: From with fractional bits, unsigned -> signed same bits
                P.append(("from", "FixedI%d<U1>" % ws, "i%d.1" % ws, "i%d" % wd, "i%d.0" % wd, "From to integer with a fractional bit"))
            if wd < ws:
                P.append(("from", "FixedI%d<U0>" % ws, "i%d.0" % ws, "FixedI%d<U0>" % wd, "i%d.0" % wd, "From: narrowing"))
                P.append(("from", "FixedU%d<U0>" % ws, "u%d.0" % ws, "u%d" % wd, "u%d.0" % wd, "From to a narrower integer"))
            # LossyFrom (any width pair): one integer bit short; unsigned -> signed equal integer bits; signed -> unsigned
            isrc = min(ws, wd)
            fs = ws - isrc
            if wd - isrc + 1 <= wd and isrc >= 1:
                P.append(("lossy", "FixedI%d<U%d>" % (ws, fs), "i%d.%d" % (ws, fs), "FixedI%d<U%d>" % (wd, wd - isrc + 1), "i%d.%d" % (wd, wd - isrc + 1), "LossyFrom: %d integer bits into %d" % (isrc, isrc - 1)))
            P.append(("lossy", "FixedU%d<U%d>" % (ws, fs), "u%d.%d" % (ws, fs), "FixedI%d<U%d>" % (wd, wd - isrc), "i%d.%d" % (wd, wd - isrc), "LossyFrom: unsigned %d integer bits into signed %d" % (isrc, isrc)))
            P.append(("lossy", "FixedI%d<U%d>" % (ws, fs), "i%d.%d" % (ws, fs), "FixedU%d<U%d>" % (wd, wd - isrc), "u%d.%d" % (wd, wd - isrc), "LossyFrom: signed into unsigned"))
            # LossyFrom fixed -> integer: unsigned integer bits == signed integer width
            if ws >= wd:
                P.append(("lossy", "FixedU%d<U%d>" % (ws, fs), "u%d.%d" % (ws, fs), "i%d" % wd, "i%d.0" % wd, "LossyFrom: unsigned %d integer bits into i%d" % (isrc, wd)))
            if ws == wd:
                P.append(("from", "FixedU%d<U0>" % ws, "u%d.0" % ws, "i%d" % wd, "i%d.0" % wd, "From: unsigned into same-width signed integer"))
                P.append(("from", "u%d" % ws, "u%d.0" % ws, "FixedU%d<U1>" % wd, "u%d.1" % wd, "From<u%d>: into %d integer bits" % (ws, ws - 1)))
                P.append(("lossy", "u%d" % ws, "u%d.0" % ws, "FixedI%d<U0>" % wd, "i%d.0" % wd, "LossyFrom<u%d>: into signed" % ws))
    return P


PROBES = gen_probes()
FLOAT_PROBES = [("FixedI32<U0>", "i32.0", 32, "i32 is not lossless in f32"), ("FixedI64<U0>", "i64.0", 64, "i64 is not lossless in f64"),
                ("FixedU32<U16>", "u32.16", 32, "u32 is not lossless in f32"), ("FixedU64<U64>", "u64.64", 64, "u64 is not lossless in f64"),
                ("FixedI128<U0>", "i128.0", 64, "i128 is not lossless in f64"), ("FixedU128<U64>", "u128.64", 32, "u128 is not lossless in f32"),
                ("FixedI64<U32>", "i64.32", 32, "i64 is not lossless in f32"), ("FixedU128<U0>", "u128.0", 64, "u128 is not lossless in f64")]
BOOL_PROBES = [("FixedI%d<U%d>" % (w, w - 1), "i%d.%d" % (w, w - 1), "1 does not fit one integer bit incl. sign") for w in W] + \
              [("FixedU%d<U%d>" % (w, w), "u%d.%d" % (w, w), "1 does not fit zero integer bits") for w in W]


def write_probes():
    d = os.path.join(HERE, "probes/src/bin")
    os.makedirs(d, exist_ok=True)
    for fn in os.listdir(d):
        os.remove(os.path.join(d, fn))
    hdr = ("// GENERATED by gen_fromto.py -- expected NOT to compile: %s\n"
           "#![allow(unused_imports)]\nuse substrate_fixed::{traits::LossyFrom, types::extra::*, *};\n")
    n = 0
    for (kind, sty, sl, dty, dl, why) in PROBES:
        s_int = not sty.startswith("Fixed")
        d_int = not dty.startswith("Fixed")
        mx = ("%s::MAX" % sty) if s_int else ("<%s>::max_value()" % sty)
        mn = ("%s::MIN" % sty) if s_int else ("<%s>::min_value()" % sty)
        sbits = "(x as u128)" if s_int else "(x.to_bits() as u128)"
        conv = ("<%s as From<%s>>::from(x)" % (dty, sty)) if kind == "from" else ("<%s as LossyFrom<%s>>::lossy_from(x)" % (dty, sty))
        dbits = "(y as u128)" if d_int else "(y.to_bits() as u128)"
        sw = int(sl[1:].split(".")[0])
        dw = int(dl[1:].split(".")[0])
        body = (hdr % why) + "fn main() {\n    for x in [%s, %s] {\n        let y = %s;\n" % (mx, mn, conv) + \
            "        println!(\"fx %s %s %s {:x} => V:{:x}\", %s & (u128::MAX >> %d), %s & (u128::MAX >> %d));\n    }\n}\n" % (
                kind, sl, dl, sbits, 128 - sw, dbits, 128 - dw)
        open(os.path.join(d, "probe_%03d.rs" % n), "w").write(body)
        n += 1
    for (sty, sl, w, why) in FLOAT_PROBES:
        sw = int(sl[1:].split(".")[0])
        body = (hdr % why) + "fn main() {\n    for x in [<%s>::max_value(), <%s>::from_bits(-1i128 as _), <%s>::from_bits(0x5555_5555_5555_5555u64 as _)] {\n" % (sty, sty, sty) + \
            "        let y = f%d::from(x);\n        println!(\"fxf from %s %d {:x} => V:{:x} V:{:x}\", (x.to_bits() as u128) & (u128::MAX >> %d), y.to_bits(), y.to_bits());\n    }\n}\n" % (w, sl, w, 128 - sw)
        open(os.path.join(d, "probe_%03d.rs" % n), "w").write(body)
        n += 1
    for (dty, dl, why) in BOOL_PROBES:
        dw = int(dl[1:].split(".")[0])
        body = (hdr % why) + "fn main() {\n    let y = <%s as From<bool>>::from(true);\n    println!(\"fx from u8.0 %s 1 => V:{:x}\", (y.to_bits() as u128) & (u128::MAX >> %d));\n}\n" % (dty, dl, 128 - dw)
        open(os.path.join(d, "probe_%03d.rs" % n), "w").write(body)
        n += 1
    return n


if __name__ == "__main__":
    a = write_fromto()
    b = write_probes()
    print("fromto.rs: %d legal pairs; %d probes" % (a, b))
