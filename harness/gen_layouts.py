#!/usr/bin/env python3
"""Generates drv/src/layouts.rs (layout-list macros) and the thin bin stubs
drv/src/bin/<body>_<chunk>.rs.  Deterministic; output is committed.

A list macro `layouts_<name>!(m)` expands to `m!(Family, UFrac, signed, nbits, frac);`
for every layout of the list.  A bin stub defines `layouts!` as one list and
includes the shared driver body, so every (body, chunk) pair is its own small
rustc job (DESIGN.md 9: compile time is the binding constraint).
"""
import os, sys

HERE = os.path.dirname(os.path.abspath(__file__))
WIDTHS = [8, 16, 32, 64, 128]


def fam(signed, n):
    return "Fixed%s%d" % ("I" if signed else "U", n)


def quick_fracs(w):
    s = {0, 1, 2, w // 4, w // 2 - 1, w // 2, w // 2 + 1, 3 * w // 4, w - 2, w - 1, w}
    if w == 8:
        s = set(range(9))
    return sorted(s)


def entry(signed, n, f):
    return "$m!(%s, U%d, %s, %d, %d);" % (fam(signed, n), f, "true" if signed else "false", n, f)


def chunks():
    """thorough chunks, ~33 layouts each -> 16 chunks"""
    ch = {}
    for signed in (True, False):
        p = "i" if signed else "u"
        ch[p + "s"] = [(signed, 8, f) for f in range(9)] + [(signed, 16, f) for f in range(17)]
        ch[p + "32"] = [(signed, 32, f) for f in range(33)]
        ch[p + "64a"] = [(signed, 64, f) for f in range(0, 33)]
        ch[p + "64b"] = [(signed, 64, f) for f in range(33, 65)]
        ch[p + "128a"] = [(signed, 128, f) for f in range(0, 33)]
        ch[p + "128b"] = [(signed, 128, f) for f in range(33, 65)]
        ch[p + "128c"] = [(signed, 128, f) for f in range(65, 97)]
        ch[p + "128d"] = [(signed, 128, f) for f in range(97, 129)]
    return ch


def quick():
    out = []
    for signed in (True, False):
        for w in WIDTHS:
            for f in quick_fracs(w):
                out.append((signed, w, f))
    return out


def quick_split():
    """quick list split in 4 (compile parallelism)"""
    q = quick()
    a = [l for l in q if l[1] <= 32 and l[0]]
    b = [l for l in q if l[1] <= 32 and not l[0]]
    c = [l for l in q if l[1] > 32 and l[0]]
    d = [l for l in q if l[1] > 32 and not l[0]]
    return {"qa": a, "qb": b, "qc": c, "qd": d}


# ---- transcendental type lists -------------------------------------------------
def trans_all(signed):
    out = []
    for n in (32, 64, 128):
        for f in range(23, n + 1):
            if n - f >= 9:
                out.append((signed, n, f))
    return out


TRANS_QUICK_S = [(True, 32, 23), (True, 64, 32), (True, 64, 48), (True, 128, 64), (True, 128, 88),
                 (True, 128, 32), (True, 64, 23), (True, 64, 55), (True, 128, 23), (True, 128, 119)]
TRANS_QUICK_U = [(False, 32, 23), (False, 64, 32), (False, 128, 64), (False, 128, 32)]
# S != D pairs (S, D)
TRANS_QUICK_PAIRS = [((True, 32, 23), (True, 64, 32)), ((True, 32, 23), (True, 128, 64)),
                     ((True, 64, 32), (True, 128, 64)), ((True, 64, 48), (True, 128, 88)),
                     ((True, 32, 23), (True, 128, 119)), ((False, 32, 23), (False, 128, 64))]


XQ_BINS = 4
XT_BINS = 16


def xpairs():
    """quick: 6 Frac combinations per family pair (600 type pairs, 4 bins);
    thorough: 40 per family pair (4000 type pairs, 16 bins)"""
    import random
    rnd = random.Random(4242)
    fams = [(s, w) for s in (True, False) for w in WIDTHS]
    q, t = [], []
    for (ss, ws) in fams:
        for (ds, wd) in fams:
            corners_q = [(0, 0), (ws, wd), (0, wd), (ws, 0), (ws // 2, wd // 2)]
            corners_q.append((rnd.randint(0, ws), rnd.randint(0, wd)))
            for (a, b) in corners_q:
                q.append(((ss, ws, a), (ds, wd, b)))
            cs = [0, 1, ws // 2, ws - 1, ws]
            cd = [0, 1, wd // 2, wd - 1, wd]
            seen = set()
            for a in cs:
                for b in cd:
                    seen.add((a, b))
            while len(seen) < 40:
                seen.add((rnd.randint(0, ws), rnd.randint(0, wd)))
            for (a, b) in sorted(seen):
                t.append(((ss, ws, a), (ds, wd, b)))
    out = {}
    # all 324 ordered pairs of 8-bit layouts (exhaustive small scope, thorough tier)
    l8 = [(sg, 8, f) for sg in (True, False) for f in range(9)]
    x8 = [(a, b) for a in l8 for b in l8]
    for i in range(4):
        out["x8%d" % i] = x8[i::4]
    for i in range(XQ_BINS):
        out["xq%d" % i] = q[i::XQ_BINS]
    for i in range(XT_BINS):
        out["xt%d" % i] = t[i::XT_BINS]
    return out


def recip_edge_dests(a, pool):
    """destinations D (From<S> legal, wider) for which the reciprocal of ONE ULP of S sits exactly at / one past /
    one below D's range: magnitude bits of D == F_S + {0, 1, -1}.  This is the type-pair edge of the
    'reciprocal not representable' clause of C13/C14 (seeded change C14-E showed that randomly chosen
    destinations never sit there)."""
    out = []
    for b in pool:
        if b == a or b[1] <= a[1]:
            continue
        if (b[1] - b[2]) < (a[1] - a[2]) or b[2] < a[2] or b[0] != a[0]:
            continue
        mag = (b[1] - b[2]) - (1 if b[0] else 0)
        if mag - a[2] in (-1, 0, 1):
            out.append(b)
    return out


def write_layouts():
    L = ["// GENERATED by gen_layouts.py -- do not edit\n"]

    def emit(name, lst):
        L.append("#[macro_export]\nmacro_rules! layouts_%s { ($m:ident) => {\n" % name)
        for (s, n, f) in lst:
            L.append("    " + entry(s, n, f) + "\n")
        L.append("}; }\n")

    for k, v in quick_split().items():
        emit(k, v)
    for k, v in chunks().items():
        emit(k, v)
    ts = trans_all(True)
    tu = trans_all(False)
    emit("tq_s", TRANS_QUICK_S)
    emit("tq_u", TRANS_QUICK_U)
    # thorough transcendental chunks (131 signed / 131 unsigned): 8 chunks each
    k = 8
    for i in range(k):
        emit("ts%d" % i, ts[i::k])
        emit("tu%d" % i, tu[i::k])
    # S->D pair macros: m!(SFam, SU, s_signed, s_n, s_f, DFam, DU, d_signed, d_n, d_f)
    def emit_pairs(name, lst):
        L.append("#[macro_export]\nmacro_rules! pairs_%s { ($m:ident) => {\n" % name)
        for (a, b) in lst:
            L.append("    $m!(%s, U%d, %s, %d, %d, %s, U%d, %s, %d, %d);\n" % (
                fam(a[0], a[1]), a[2], "true" if a[0] else "false", a[1], a[2],
                fam(b[0], b[1]), b[2], "true" if b[0] else "false", b[1], b[2]))
        L.append("}; }\n")
    qp = list(TRANS_QUICK_PAIRS)
    for a in TRANS_QUICK_S[:4] + TRANS_QUICK_U[:2]:
        for b in recip_edge_dests(a, ts if a[0] else tu):
            if (a, b) not in qp:
                qp.append((a, b))
    emit_pairs("tq", qp)
    # thorough pairs: every S with a deterministic selection of wider D (From<S> needs
    # int bits and frac bits both >=)
    import random
    rnd = random.Random(12345)
    allp = []
    for lst in (ts, tu):
        for a in lst:
            cands = [b for b in lst if b != a and (b[1] - b[2]) >= (a[1] - a[2]) and b[2] >= a[2]]
            if cands:
                for b in rnd.sample(cands, min(2, len(cands))):
                    allp.append((a, b))
            for b in recip_edge_dests(a, lst):
                if (a, b) not in allp:
                    allp.append((a, b))
    for i in range(k):
        emit_pairs("tp%d" % i, allp[i::k])
    # cross-type (C03/C04) pair lists: every one of the 100 family pairs x Frac combinations
    for name, lst in xpairs().items():
        emit_pairs(name, lst)
    open(os.path.join(HERE, "drv/src/layouts.rs"), "w").write("".join(L))
    return len(allp)


# bodies driven per layout list; value = list-kind
PER_LAYOUT_BODIES = ["arith", "rem", "round", "flt", "parse", "fmt", "codec", "wrap", "convi"]
TRANS_BODIES = ["trans"]


def write_bins():
    bdir = os.path.join(HERE, "drv/src/bin")
    os.makedirs(bdir, exist_ok=True)
    keep = set()

    def stub(body, chunk, macro_lines):
        name = "%s_%s.rs" % (body, chunk)
        keep.add(name)
        src = "// GENERATED by gen_layouts.py -- do not edit\n" + macro_lines + \
              'include!("../body/%s.rs");\n' % body
        p = os.path.join(bdir, name)
        if not os.path.exists(p) or open(p).read() != src:
            open(p, "w").write(src)

    for body in PER_LAYOUT_BODIES:
        if not os.path.exists(os.path.join(HERE, "drv/src/body/%s.rs" % body)):
            continue
        for ch in list(quick_split().keys()) + list(chunks().keys()):
            stub(body, ch, "macro_rules! layouts { ($m:ident) => { drv::layouts_%s!($m); }; }\n" % ch)
    for body in TRANS_BODIES:
        if not os.path.exists(os.path.join(HERE, "drv/src/body/%s.rs" % body)):
            continue
        stub(body, "q",
             "macro_rules! layouts_s { ($m:ident) => { drv::layouts_tq_s!($m); }; }\n"
             "macro_rules! layouts_u { ($m:ident) => { drv::layouts_tq_u!($m); }; }\n"
             "macro_rules! pairs { ($m:ident) => { drv::pairs_tq!($m); }; }\n")
        for i in range(8):
            stub(body, "t%d" % i,
                 "macro_rules! layouts_s { ($m:ident) => { drv::layouts_ts%d!($m); }; }\n"
                 "macro_rules! layouts_u { ($m:ident) => { drv::layouts_tu%d!($m); }; }\n"
                 "macro_rules! pairs { ($m:ident) => { drv::pairs_tp%d!($m); }; }\n" % (i, i, i))
    if os.path.exists(os.path.join(HERE, "drv/src/body/xtype.rs")):
        for i in range(XQ_BINS):
            stub("xtype", "xq%d" % i, "macro_rules! pairs { ($m:ident) => { drv::pairs_xq%d!($m); }; }\n" % i)
        for i in range(XT_BINS):
            stub("xtype", "xt%d" % i, "macro_rules! pairs { ($m:ident) => { drv::pairs_xt%d!($m); }; }\n" % i)
        for i in range(4):
            stub("xtype", "x8%d" % i, "macro_rules! pairs { ($m:ident) => { drv::pairs_x8%d!($m); }; }\n" % i)
    # remove stale generated stubs
    for fn in os.listdir(bdir):
        p = os.path.join(bdir, fn)
        if fn not in keep and open(p).read().startswith("// GENERATED by gen_layouts.py"):
            os.remove(p)


if __name__ == "__main__":
    n = write_layouts()
    write_bins()
    print("layouts.rs written; quick=%d layouts; thorough pairs=%d" % (len(quick()), n))
