//! Non-generic support code for the workload drivers: PRNG, operand synthesis on
//! raw bits, event writer, panic capture, argument parsing.
//!
//! Nothing in here judges anything and nothing in here calls the library under
//! test: operands are synthesised on raw bit patterns only (DESIGN.md 2.1).

use std::cell::RefCell;
use std::io::{BufRead, BufWriter, Write};

// ------------------------------------------------------------------ PRNG

#[derive(Clone)]
pub struct Rng(pub u64);

impl Rng {
    pub fn new(seed: u64) -> Rng {
        Rng(seed ^ 0x9E37_79B9_7F4A_7C15)
    }
    /// derive an independent stream
    pub fn fork(&self, salt: u64) -> Rng {
        let mut r = Rng(self.0 ^ salt.wrapping_mul(0xD6E8_FEB8_6659_FD93));
        r.next();
        r.next();
        r
    }
    #[inline]
    pub fn next(&mut self) -> u64 {
        self.0 = self.0.wrapping_add(0x9E37_79B9_7F4A_7C15);
        let mut z = self.0;
        z = (z ^ (z >> 30)).wrapping_mul(0xBF58_476D_1CE4_E5B9);
        z = (z ^ (z >> 27)).wrapping_mul(0x94D0_49BB_1331_11EB);
        z ^ (z >> 31)
    }
    #[inline]
    pub fn next128(&mut self) -> u128 {
        ((self.next() as u128) << 64) | self.next() as u128
    }
    /// uniform in 0..n (n > 0); tiny modulo bias is irrelevant here
    #[inline]
    pub fn below(&mut self, n: u64) -> u64 {
        self.next() % n
    }
    #[inline]
    pub fn range(&mut self, lo: i64, hi: i64) -> i64 {
        lo + (self.next() % ((hi - lo + 1) as u64)) as i64
    }
    #[inline]
    pub fn chance(&mut self, num: u64, den: u64) -> bool {
        self.below(den) < num
    }
    pub fn pick<'a, T>(&mut self, xs: &'a [T]) -> &'a T {
        &xs[self.below(xs.len() as u64) as usize]
    }
}

// ------------------------------------------------------------------ layouts

#[derive(Clone, Copy, Debug, PartialEq, Eq)]
pub struct Lay {
    pub signed: bool,
    pub n: u32,
    pub f: u32,
}

impl Lay {
    pub fn new(signed: bool, n: u32, f: u32) -> Lay {
        Lay { signed, n, f }
    }
    pub fn name(&self) -> String {
        format!("{}{}.{}", if self.signed { 'i' } else { 'u' }, self.n, self.f)
    }
    #[inline]
    pub fn mask(&self) -> u128 {
        mask(self.n)
    }
    pub fn id(&self) -> u64 {
        ((self.signed as u64) << 20) | ((self.n as u64) << 10) | self.f as u64
    }
    /// raw bit pattern of the smallest value
    pub fn min_bits(&self) -> u128 {
        if self.signed {
            1u128 << (self.n - 1)
        } else {
            0
        }
    }
    /// raw bit pattern of the largest value
    pub fn max_bits(&self) -> u128 {
        if self.signed {
            (1u128 << (self.n - 1)) - 1
        } else {
            self.mask()
        }
    }
    /// sign-extend a masked pattern to i128 (signed layouts) / reinterpret
    pub fn sext(&self, x: u128) -> i128 {
        sext(x, self.n)
    }
}

#[inline]
pub fn mask(n: u32) -> u128 {
    if n >= 128 {
        u128::MAX
    } else {
        (1u128 << n) - 1
    }
}

#[inline]
pub fn sext(x: u128, n: u32) -> i128 {
    if n >= 128 {
        x as i128
    } else {
        let sh = 128 - n;
        ((x << sh) as i128) >> sh
    }
}

/// Conversion between a primitive integer and its (zero-extended) bit pattern.
pub trait BitsIo: Copy + core::hash::Hash {
    const NBITS: u32;
    const SIGNED: bool;
    fn from_u128(x: u128) -> Self;
    fn to_u128(self) -> u128;
}

macro_rules! bits_io {
    ($($t:ty, $u:ty, $s:expr;)*) => {$(
        impl BitsIo for $t {
            const NBITS: u32 = (core::mem::size_of::<$t>() * 8) as u32;
            const SIGNED: bool = $s;
            #[inline] fn from_u128(x: u128) -> Self { x as $t }
            #[inline] fn to_u128(self) -> u128 { (self as $u) as u128 }
        }
    )*};
}
bits_io! {
    i8, u8, true; i16, u16, true; i32, u32, true; i64, u64, true; i128, u128, true; isize, usize, true;
    u8, u8, false; u16, u16, false; u32, u32, false; u64, u64, false; u128, u128, false; usize, usize, false;
}

// ------------------------------------------------------------------ 256-bit helpers

/// (hi:lo) / d -> (q, r) if the quotient fits 128 bits
pub fn divrem_256_128(hi: u128, lo: u128, d: u128) -> Option<(u128, u128)> {
    if d == 0 || hi >= d {
        return None;
    }
    let mut rem = hi;
    let mut q = 0u128;
    for i in (0..128).rev() {
        let carry = rem >> 127;
        rem = (rem << 1) | ((lo >> i) & 1);
        if carry == 1 || rem >= d {
            rem = rem.wrapping_sub(d);
            q |= 1u128 << i;
        }
    }
    Some((q, rem))
}

/// x << s as (hi, lo), s < 256
pub fn shl_256(x: u128, s: u32) -> (u128, u128) {
    if s == 0 {
        (0, x)
    } else if s < 128 {
        (x >> (128 - s), x << s)
    } else if s == 128 {
        (x, 0)
    } else {
        (x << (s - 128), 0)
    }
}

/// full 128x128 -> 256 product
pub fn mul_128(a: u128, b: u128) -> (u128, u128) {
    let (a1, a0) = (a >> 64, a & u64::MAX as u128);
    let (b1, b0) = (b >> 64, b & u64::MAX as u128);
    let p00 = a0 * b0;
    let p01 = a0 * b1;
    let p10 = a1 * b0;
    let p11 = a1 * b1;
    let mid = (p00 >> 64) + (p01 & u64::MAX as u128) + (p10 & u64::MAX as u128);
    let lo = (p00 & u64::MAX as u128) | (mid << 64);
    let hi = p11 + (p01 >> 64) + (p10 >> 64) + (mid >> 64);
    (hi, lo)
}

// ------------------------------------------------------------------ operand synthesis

/// One operand of width `lay.n`, as a masked bit pattern.  Mix of boundary
/// constants, log-uniform magnitudes, sparse/dense patterns, limb-structured
/// patterns and uniform bits (DESIGN.md 3, classes 1-2).
/// Both half-width limbs drawn from carry-provoking values {0, 1, 2, 2^(h-1), 2^(h-1)+-1, 2^h-1, 2^h-2, random}:
/// the operands on which limb-wise (schoolbook / long-division) code paths produce and propagate carries.
pub fn gen_limb_structured(rng: &mut Rng, lay: Lay) -> u128 {
    let h = lay.n / 2;
    let hm = mask(h);
    let mut pick = |rng: &mut Rng| -> u128 {
        match rng.below(9) {
            0 => 0,
            1 => 1,
            2 => 2,
            3 => 1u128 << (h - 1),
            4 => (1u128 << (h - 1)) + 1,
            5 => (1u128 << (h - 1)) - 1,
            6 => hm,
            7 => hm - 1,
            _ => rng.next128() & hm,
        }
    };
    let hi = pick(rng);
    let lo = pick(rng);
    ((hi << h) | lo) & lay.mask()
}

pub fn gen_bits(rng: &mut Rng, lay: Lay) -> u128 {
    let n = lay.n;
    let f = lay.f;
    let m = lay.mask();
    let r = rng.below(100);
    let v = if r < 22 {
        // boundary constants
        let k = rng.below(n as u64) as u32;
        let one = if f < n { 1u128 << f } else { 0 };
        let half = if f >= 1 { 1u128 << (f - 1) } else { 0 };
        match rng.below(30) {
            26..=29 => gen_limb_structured(rng, lay),
            0 => 0,
            1 => 1,
            2 => 2,
            3 => m,                                // -1 ulp / umax
            4 => 1u128 << (n - 1),                 // signed MIN / MSB
            5 => (1u128 << (n - 1)).wrapping_add(1),
            6 => (1u128 << (n - 1)) - 1,           // signed MAX
            7 => (1u128 << (n - 1)).wrapping_sub(2),
            8 => m - 1,
            9 => one,
            10 => one.wrapping_add(1),
            11 => one.wrapping_sub(1),
            12 => half,
            13 => one.wrapping_neg(),
            14 => half.wrapping_neg(),
            15 => 0x5555_5555_5555_5555_5555_5555_5555_5555,
            16 => 0xAAAA_AAAA_AAAA_AAAA_AAAA_AAAA_AAAA_AAAA,
            17 => 1u128 << k,
            18 => (1u128 << k).wrapping_add(1),
            19 => (1u128 << k).wrapping_sub(1),
            20 => (1u128 << k).wrapping_neg(),
            21 => (1u128 << k).wrapping_neg().wrapping_add(1),
            22 => (1u128 << k).wrapping_neg().wrapping_sub(1),
            23 => one.wrapping_add(half),
            24 => one.wrapping_mul(3),
            _ => one.wrapping_add(half).wrapping_neg(),
        }
    } else if r < 52 {
        // log-uniform magnitude, random sign
        let len = rng.below(n as u64 + 1) as u32;
        let mag = if len == 0 {
            0
        } else {
            (rng.next128() & mask(len)) | (1u128 << (len - 1))
        };
        if rng.chance(1, 2) {
            mag.wrapping_neg()
        } else {
            mag
        }
    } else if r < 62 {
        // sparse: <= 3 set bits
        let mut v = 0u128;
        for _ in 0..(1 + rng.below(3)) {
            v |= 1u128 << rng.below(n as u64);
        }
        v
    } else if r < 72 {
        // dense: <= 3 clear bits
        let mut v = m;
        for _ in 0..(1 + rng.below(3)) {
            v &= !(1u128 << rng.below(n as u64));
        }
        v
    } else if r < 87 {
        // limb-structured: four quarter-width limbs from a small alphabet
        let q = (n / 4).max(2);
        let qm = mask(q);
        let mut v = 0u128;
        let mut sh = 0;
        while sh < n {
            let limb = match rng.below(6) {
                0 => 0,
                1 => 1,
                2 => 1u128 << (q - 1),
                3 => qm,
                4 => qm - 1,
                _ => rng.next128() & qm,
            };
            v |= limb << sh;
            sh += q;
        }
        v
    } else {
        rng.next128()
    };
    v & m
}

/// sign and magnitude of a pattern under the layout
#[inline]
fn sign_mag(lay: Lay, x: u128) -> (bool, u128) {
    if lay.signed {
        let s = lay.sext(x);
        (s < 0, s.unsigned_abs())
    } else {
        (false, x)
    }
}

#[inline]
fn from_sign_mag(lay: Lay, neg: bool, mag: u128) -> u128 {
    (if neg { mag.wrapping_neg() } else { mag }) & lay.mask()
}

fn target_bits(rng: &mut Rng, lay: Lay) -> (bool, u128) {
    // (negative?, magnitude) of a raw result the workload wants to land next to
    let n = lay.n;
    match rng.below(8) {
        0 | 1 => (false, lay.max_bits()),
        2 | 3 if lay.signed => (true, 1u128 << (n - 1)),
        4 => (false, rng.below(3) as u128),
        5 if lay.signed => (true, 1 + rng.below(3) as u128),
        6 => {
            // just beyond the range on the far side (2x)
            if n < 128 {
                (lay.signed && rng.chance(1, 2), 1u128 << n)
            } else {
                (false, lay.max_bits())
            }
        }
        _ => (false, lay.max_bits()),
    }
}

/// `b` such that the exact product `(a*b) >> f` lands within a few ulp of a
/// range boundary or of zero (class 3).  Falls back to `gen_bits`.
pub fn gen_mul_partner(rng: &mut Rng, lay: Lay, a: u128) -> u128 {
    if lay.n == 128 && rng.chance(1, 5) {
        // directed: middle-column carry boundary of the 128-bit schoolbook product
        for _ in 0..4 {
            if let Some(b) = gen_mul_carry_partner(rng, lay, a) {
                return b;
            }
        }
    }
    let (an, am) = sign_mag(lay, a);
    if am == 0 {
        return gen_bits(rng, lay);
    }
    let (tn, tm) = target_bits(rng, lay);
    // |b| ~ (|T| << f) / |a|
    let (hi, lo) = shl_256(tm, lay.f);
    match divrem_256_128(hi, lo, am) {
        Some((q, _)) => {
            let d = rng.range(-2, 2);
            let q = if d < 0 {
                q.wrapping_sub((-d) as u128)
            } else {
                q.wrapping_add(d as u128)
            };
            let neg = (tn != an) && lay.signed;
            if !lay.signed && tn {
                return gen_bits(rng, lay);
            }
            if q > lay.mask() {
                return gen_bits(rng, lay);
            }
            from_sign_mag(lay, neg, q)
        }
        None => gen_bits(rng, lay),
    }
}

/// `b` such that the exact quotient `(a << f) / b` lands within a few ulp of a
/// range boundary, of +-1 ulp, or such that b is a hostile divisor (class 3).
pub fn gen_div_partner(rng: &mut Rng, lay: Lay, a: u128) -> u128 {
    let m = lay.mask();
    match rng.below(10) {
        0 => return 1,
        1 => return m, // -1 ulp (signed) / max (unsigned)
        2 => return lay.min_bits() | (!lay.signed as u128),
        3 => return a,
        4 => return a.wrapping_neg() & m,
        _ => {}
    }
    let (an, am) = sign_mag(lay, a);
    let (tn, tm) = target_bits(rng, lay);
    if tm == 0 || am == 0 {
        return gen_bits(rng, lay);
    }
    // |b| ~ (|a| << f) / |T|
    let (hi, lo) = shl_256(am, lay.f);
    match divrem_256_128(hi, lo, tm) {
        Some((q, _)) => {
            let d = rng.range(-2, 2);
            let q = if d < 0 {
                q.wrapping_sub((-d) as u128)
            } else {
                q.wrapping_add(d as u128)
            };
            if q == 0 || q > m {
                return gen_bits(rng, lay);
            }
            if !lay.signed && tn {
                return gen_bits(rng, lay);
            }
            from_sign_mag(lay, (tn != an) && lay.signed, q)
        }
        None => gen_bits(rng, lay),
    }
}

/// dividend `a` with `(a << f) / b ~ T` for the raw target quotient T = (-1)^tn * (tm_hi * 2^128 + tm): a = trunc(T*b / 2^f) + d
fn solve_dividend(lay: Lay, b: u128, tn: bool, tm_hi: u128, tm: u128, d: i64) -> Option<u128> {
    let m = lay.mask();
    let (bn, bm) = sign_mag(lay, b);
    if bm == 0 || (!lay.signed && tn) {
        return None;
    }
    let (p_hi, p_lo) = mul_128(tm, bm);
    // + tm_hi * bm * 2^128 (tm_hi is 0 or 1)
    let (p_hi, c) = p_hi.overflowing_add(if tm_hi != 0 { bm } else { 0 });
    if c {
        return None;
    }
    let am = if lay.f == 0 {
        if p_hi != 0 {
            return None;
        }
        p_lo
    } else if lay.f < 128 {
        if (p_hi >> lay.f) != 0 {
            return None;
        }
        (p_hi << (128 - lay.f)) | (p_lo >> lay.f)
    } else {
        p_hi
    };
    let am = if d < 0 { am.checked_sub((-d) as u128)? } else { am.checked_add(d as u128)? };
    if am > m {
        return None;
    }
    let an = tn != bn;
    if !lay.signed && an && am != 0 {
        return None;
    }
    let a = from_sign_mag(lay, an, am);
    // the pattern must mean the intended value (a magnitude of 2^(n-1) is only MIN when negative)
    if lay.signed && (sign_mag(lay, a) != (an && am != 0, am)) {
        return None;
    }
    Some(a)
}

/// raw target quotients at and next to the range bounds: MAX, MAX+1 (the first quotient that does not fit), MIN, MIN-1, +-2^n
fn div_targets(lay: Lay) -> Vec<(bool, u128, u128)> {
    let n = lay.n;
    let mut t = vec![(false, 0u128, lay.max_bits())];
    match lay.max_bits().checked_add(1) {
        Some(v) => t.push((false, 0, v)),
        None => t.push((false, 1, 0)),
    }
    if lay.signed {
        t.push((true, 0, 1u128 << (n - 1)));
        t.push((true, 0, (1u128 << (n - 1)) + 1));
    }
    if n < 128 {
        t.push((false, 0, 1u128 << n));
        if lay.signed {
            t.push((true, 0, 1u128 << n));
        }
    } else if lay.signed {
        t.push((false, 1, 0));
        t.push((true, 1, 0));
    }
    t
}

/// SYSTEMATIC block (class 3, solved from the DIVISOR side): for every hostile divisor b in {+-1 ulp, +-2, +-3, +-2^(f-1), +-2^f (= +-1.0),
/// +-2^(n-2), MIN, MAX} and every bound target T, the dividends a = trunc(T*b/2^f) + {-1, 0, 1}: the exact quotient (a << f) / b
/// lands on / one step beside MAX, MAX+1, MIN, MIN-1, +-2^n.  `gen_div_partner` solves b from a RANDOM a; with the divisor fixed the
/// dividend that puts the quotient exactly on a bound is a single value (e.g. -2^(n-1-f) for b = -1 ulp) that random operands never take.
pub fn div_bound_block(lay: Lay) -> Vec<(u128, u128)> {
    let n = lay.n;
    let m = lay.mask();
    let mut bs: Vec<u128> = vec![1, 2, 3, 1u128 << (n - 2), lay.max_bits()];
    if lay.f >= 1 {
        bs.push(1u128 << (lay.f - 1));
    }
    if lay.f < n - (lay.signed as u32) {
        bs.push(1u128 << lay.f);
    }
    if lay.signed {
        let neg: Vec<u128> = bs.iter().map(|v| v.wrapping_neg() & m).collect();
        bs.extend(neg);
        bs.push(lay.min_bits());
    }
    let mut out = Vec::new();
    for &b in bs.iter() {
        for &(tn, th, tm) in div_targets(lay).iter() {
            for d in -1..=1i64 {
                if let Some(a) = solve_dividend(lay, b, tn, th, tm, d) {
                    out.push((a, b));
                }
            }
        }
    }
    out
}

/// random member of the same class: hostile or structured divisor, bound target, dividend solved (falls back to a random dividend)
pub fn gen_div_pair(rng: &mut Rng, lay: Lay) -> (u128, u128) {
    let n = lay.n;
    let m = lay.mask();
    let b = match rng.below(8) {
        0 => 1,
        1 => m, // -1 ulp (signed) / MAX (unsigned)
        2 | 3 => {
            let k = rng.below(n as u64) as u32;
            let v = 1u128 << k;
            (if lay.signed && rng.chance(1, 2) { v.wrapping_neg() } else { v }) & m
        }
        4 => {
            let v = 1 + rng.below(9) as u128;
            (if lay.signed && rng.chance(1, 2) { v.wrapping_neg() } else { v }) & m
        }
        5 => gen_limb_structured(rng, lay),
        _ => gen_bits(rng, lay),
    };
    let ts = div_targets(lay);
    let (tn, th, tm) = ts[rng.below(ts.len() as u64) as usize];
    let d = rng.range(-2, 2);
    match solve_dividend(lay, b, tn, th, tm, d) {
        Some(a) => (a, if b == 0 { 1 } else { b }),
        None => (gen_bits(rng, lay), if b == 0 { 1 } else { b }),
    }
}

/// SYSTEMATIC block for products: for every hostile multiplicand a in {+-1 ulp, +-2, +-3, +-2^(f-1), +-1.0, +-2^(n-2), MIN, MAX} and every
/// bound target T, the multipliers b = trunc((T << f) / a) + {-1, 0, 1}: the exact product (a*b) >> f lands on / beside MAX, MAX+1, MIN, MIN-1, +-2^n.
pub fn mul_bound_block(lay: Lay) -> Vec<(u128, u128)> {
    let n = lay.n;
    let m = lay.mask();
    let mut as_: Vec<u128> = vec![1, 2, 3, 1u128 << (n - 2), lay.max_bits()];
    if lay.f >= 1 {
        as_.push(1u128 << (lay.f - 1));
    }
    if lay.f < n - (lay.signed as u32) {
        as_.push(1u128 << lay.f);
    }
    if lay.signed {
        let neg: Vec<u128> = as_.iter().map(|v| v.wrapping_neg() & m).collect();
        as_.extend(neg);
        as_.push(lay.min_bits());
    }
    let mut out = Vec::new();
    for &a in as_.iter() {
        let (an, am) = sign_mag(lay, a);
        if am == 0 {
            continue;
        }
        for &(tn, th, tm) in div_targets(lay).iter() {
            if th != 0 || (!lay.signed && tn) {
                continue;
            }
            let (hi, lo) = shl_256(tm, lay.f);
            if let Some((q, _)) = divrem_256_128(hi, lo, am) {
                for d in -1..=1i64 {
                    let q = if d < 0 { q.checked_sub((-d) as u128) } else { q.checked_add(d as u128) };
                    let q = match q {
                        Some(q) if q <= m => q,
                        _ => continue,
                    };
                    let bn = tn != an;
                    if !lay.signed && bn && q != 0 {
                        continue;
                    }
                    let b = from_sign_mag(lay, bn, q);
                    if lay.signed && sign_mag(lay, b) != (bn && q != 0, q) {
                        continue;
                    }
                    out.push((a, b));
                }
            }
        }
    }
    out
}

/// add/sub partner: lands the exact sum/difference next to a boundary
pub fn gen_add_partner(rng: &mut Rng, lay: Lay, a: u128, sub: bool) -> u128 {
    let m = lay.mask();
    let t = match rng.below(4) {
        0 => lay.max_bits(),
        1 => lay.min_bits(),
        2 => 0,
        _ => return gen_bits(rng, lay),
    };
    let d = rng.range(-2, 2) as i128 as u128;
    // a + b = t + d  or  a - b = t + d
    let b = if sub {
        a.wrapping_sub(t).wrapping_sub(d)
    } else {
        t.wrapping_add(d).wrapping_sub(a)
    };
    b & m
}

/// value near an integer / half-integer boundary of the layout (rounding workloads)
pub fn gen_round_operand(rng: &mut Rng, lay: Lay) -> u128 {
    let n = lay.n;
    let f = lay.f;
    let m = lay.mask();
    if f == 0 || rng.chance(1, 4) {
        return gen_bits(rng, lay);
    }
    // integer part: boundary-ish; fractional part from {0, ulp, half-ulp.., half, half+ulp, one-ulp}
    let fm = mask(f);
    let frac = match rng.below(8) {
        0 => 0,
        1 => 1,
        2 => (1u128 << (f - 1)).wrapping_sub(1),
        3 => 1u128 << (f - 1),
        4 => (1u128 << (f - 1)) + 1,
        5 => fm,
        6 => fm - 1,
        _ => rng.next128(),
    } & fm;
    let int = if f >= n {
        0
    } else {
        let ib = n - f;
        let im = mask(ib);
        (match rng.below(10) {
            0 => 0,
            1 => 1,
            2 => 2,
            3 => im,
            4 => im - 1,
            5 => 1u128 << (ib - 1),
            6 => (1u128 << (ib - 1)).wrapping_sub(1),
            7 => (1u128 << (ib - 1)).wrapping_sub(2),
            8 => (1u128 << (ib - 1)).wrapping_add(1),
            _ => rng.next128(),
        }) & im
    };
    let hi = if f >= 128 { 0 } else { int << f };
    (hi | frac) & m
}

// ------------------------------------------------------------------ panic capture

thread_local! {
    static LAST_PANIC: RefCell<Option<String>> = RefCell::new(None);
}

pub fn install_panic_hook() {
    std::panic::set_hook(Box::new(|info| {
        let loc = match info.location() {
            Some(l) => format!("{}:{}", l.file().trim_start_matches("/repo/"), l.line()),
            None => "?:0".to_string(),
        };
        let msg = if let Some(s) = info.payload().downcast_ref::<&str>() {
            (*s).to_string()
        } else if let Some(s) = info.payload().downcast_ref::<String>() {
            s.clone()
        } else {
            "?".to_string()
        };
        let msg: String = msg.chars().take(60).collect();
        LAST_PANIC.with(|p| *p.borrow_mut() = Some(format!("{}|{}", loc, msg)));
    }));
}

/// run `f`; on unwind return the captured "file:line|message"
pub fn guard(f: &mut dyn FnMut()) -> Option<String> {
    match std::panic::catch_unwind(std::panic::AssertUnwindSafe(|| f())) {
        Ok(()) => None,
        Err(_) => Some(
            LAST_PANIC
                .with(|p| p.borrow_mut().take())
                .unwrap_or_else(|| "?:0|?".to_string()),
        ),
    }
}

// ------------------------------------------------------------------ event writer

pub fn hex_escape(s: &[u8]) -> String {
    let mut o = String::with_capacity(s.len() * 2 + 1);
    for b in s {
        o.push_str(&format!("{:02x}", b));
    }
    if o.is_empty() {
        o.push('-');
    }
    o
}

pub fn hex_unescape(s: &str) -> Vec<u8> {
    if s == "-" {
        return Vec::new();
    }
    (0..s.len() / 2)
        .map(|i| u8::from_str_radix(&s[2 * i..2 * i + 2], 16).unwrap())
        .collect()
}

pub struct Ev {
    buf: String,
    out: BufWriter<std::io::Stdout>,
    pub count: u64,
}

impl Ev {
    pub fn new() -> Ev {
        Ev {
            buf: String::with_capacity(4096),
            out: BufWriter::with_capacity(1 << 20, std::io::stdout()),
            count: 0,
        }
    }
    /// start an event: op name and layout
    pub fn begin(&mut self, op: &str, lay: Lay) {
        self.buf.clear();
        self.buf.push_str(op);
        self.buf.push(' ');
        self.buf.push_str(&lay.name());
    }
    pub fn begin2(&mut self, op: &str, tag: &str) {
        self.buf.clear();
        self.buf.push_str(op);
        self.buf.push(' ');
        self.buf.push_str(tag);
    }
    /// operand (hex bit pattern)
    pub fn arg(&mut self, x: u128) {
        use std::fmt::Write;
        let _ = write!(self.buf, " {:x}", x);
    }
    /// free-form operand token (no blanks)
    pub fn arg_s(&mut self, s: &str) {
        self.buf.push(' ');
        self.buf.push_str(s);
    }
    /// hex-escaped text operand
    pub fn arg_t(&mut self, s: &[u8]) {
        self.buf.push(' ');
        self.buf.push_str(&hex_escape(s));
    }
    pub fn sep(&mut self) {
        self.buf.push_str(" =>");
    }
    pub fn v(&mut self, x: u128) {
        use std::fmt::Write;
        let _ = write!(self.buf, " V:{:x}", x);
    }
    pub fn o(&mut self, x: u128, f: bool) {
        use std::fmt::Write;
        let _ = write!(self.buf, " O:{:x}:{}", x, f as u8);
    }
    pub fn s(&mut self, x: Option<u128>) {
        use std::fmt::Write;
        match x {
            Some(x) => {
                let _ = write!(self.buf, " S:{:x}", x);
            }
            None => self.buf.push_str(" N"),
        }
    }
    pub fn b(&mut self, x: bool) {
        self.buf.push_str(if x { " B:1" } else { " B:0" });
    }
    pub fn t(&mut self, s: &[u8]) {
        self.buf.push_str(" T:");
        self.buf.push_str(&hex_escape(s));
    }
    pub fn ok(&mut self, x: u128) {
        use std::fmt::Write;
        let _ = write!(self.buf, " K:{:x}", x);
    }
    pub fn oko(&mut self, x: u128, f: bool) {
        use std::fmt::Write;
        let _ = write!(self.buf, " K:{:x}:{}", x, f as u8);
    }
    pub fn err(&mut self, msg: &str) {
        self.buf.push_str(" E:");
        self.buf.push_str(&hex_escape(msg.as_bytes()));
    }
    /// panic token
    pub fn p(&mut self, info: &str) {
        self.buf.push_str(" P:");
        self.buf.push_str(&hex_escape(info.as_bytes()));
    }
    /// not available on this layout
    pub fn na(&mut self) {
        self.buf.push_str(" -");
    }
    /// raw token
    pub fn raw(&mut self, s: &str) {
        self.buf.push(' ');
        self.buf.push_str(s);
    }
    pub fn end(&mut self) {
        self.buf.push('\n');
        let _ = self.out.write_all(self.buf.as_bytes());
        self.count += 1;
    }
    pub fn flush(&mut self) {
        let _ = self.out.flush();
    }

    // ---- outcome recorders taking a guarded computation -----------------
    pub fn rec_v(&mut self, f: &mut dyn FnMut() -> u128) {
        let mut r = 0u128;
        match guard(&mut || r = f()) {
            None => self.v(r),
            Some(p) => self.p(&p),
        }
    }
    pub fn rec_o(&mut self, f: &mut dyn FnMut() -> (u128, bool)) {
        let mut r = (0u128, false);
        match guard(&mut || r = f()) {
            None => self.o(r.0, r.1),
            Some(p) => self.p(&p),
        }
    }
    pub fn rec_s(&mut self, f: &mut dyn FnMut() -> Option<u128>) {
        let mut r = None;
        match guard(&mut || r = f()) {
            None => self.s(r),
            Some(p) => self.p(&p),
        }
    }
    pub fn rec_b(&mut self, f: &mut dyn FnMut() -> bool) {
        let mut r = false;
        match guard(&mut || r = f()) {
            None => self.b(r),
            Some(p) => self.p(&p),
        }
    }
}

impl Drop for Ev {
    fn drop(&mut self) {
        self.flush();
    }
}

// ------------------------------------------------------------------ arguments

/// Driver arguments: `--seed S --n N --shard I/K [--only i8.3,u16.0] [--stdin]`.
pub struct Args {
    pub seed: u64,
    pub n: u64,
    pub shard: u64,
    pub nshards: u64,
    pub only: Option<Vec<String>>,
    pub stdin: bool,
    pub extra: Vec<(String, String)>,
}

impl Args {
    pub fn parse() -> Args {
        let mut a = Args {
            seed: 1,
            n: 1000,
            shard: 0,
            nshards: 1,
            only: None,
            stdin: false,
            extra: Vec::new(),
        };
        let v: Vec<String> = std::env::args().skip(1).collect();
        let mut i = 0;
        while i < v.len() {
            let k = v[i].as_str();
            let val = v.get(i + 1).cloned().unwrap_or_default();
            match k {
                "--seed" => {
                    a.seed = val.parse().expect("seed");
                    i += 2;
                }
                "--n" => {
                    a.n = val.parse().expect("n");
                    i += 2;
                }
                "--shard" => {
                    let mut it = val.split('/');
                    a.shard = it.next().unwrap().parse().expect("shard");
                    a.nshards = it.next().unwrap().parse().expect("nshards");
                    i += 2;
                }
                "--only" => {
                    a.only = Some(val.split(',').map(|s| s.to_string()).collect());
                    i += 2;
                }
                "--stdin" => {
                    a.stdin = true;
                    i += 1;
                }
                _ => {
                    a.extra.push((k.trim_start_matches("--").to_string(), val));
                    i += 2;
                }
            }
        }
        a
    }
    pub fn get(&self, k: &str) -> Option<&str> {
        self.extra.iter().find(|(a, _)| a == k).map(|(_, v)| v.as_str())
    }
    pub fn get_u64(&self, k: &str, d: u64) -> u64 {
        self.get(k).map(|v| v.parse().expect("numeric arg")).unwrap_or(d)
    }
    /// does this process handle the given layout?  Layouts are dealt to shards
    /// round-robin by their index in the driver's list.
    pub fn want(&self, idx: u64, lay: Lay) -> bool {
        if let Some(only) = &self.only {
            return only.iter().any(|o| *o == lay.name());
        }
        idx % self.nshards == self.shard
    }
    pub fn rng_for(&self, lay: Lay, salt: u64) -> Rng {
        Rng::new(self.seed).fork(lay.id().wrapping_mul(1_000_003).wrapping_add(salt))
    }
}

/// Replay input: lines `op layout operand...` (the part of an event before `=>`).
pub fn read_stdin_lines() -> Vec<Vec<String>> {
    let stdin = std::io::stdin();
    let mut v = Vec::new();
    for l in stdin.lock().lines() {
        let l = l.unwrap();
        let l = l.split("=>").next().unwrap().trim().to_string();
        if l.is_empty() || l.starts_with('#') {
            continue;
        }
        v.push(l.split_whitespace().map(|s| s.to_string()).collect());
    }
    v
}

pub fn parse_hex(s: &str) -> u128 {
    u128::from_str_radix(s, 16).expect("hex operand")
}

pub fn parse_lay(s: &str) -> Lay {
    let signed = s.starts_with('i');
    let mut it = s[1..].split('.');
    let n = it.next().unwrap().parse().unwrap();
    let f = it.next().unwrap().parse().unwrap();
    Lay { signed, n, f }
}

// ------------------------------------------------------------------ cross-type operand synthesis

/// An integer (type: `isigned`, `m` bits; returned masked to m bits) that is
/// adversarial for conversion to / comparison with layout `lay` holding `a`:
/// equal to the integer part of `a`, off by one, at the ends of the layout's
/// integer range, at the ends of the integer type, or structured/random.
pub fn gen_int_for(rng: &mut Rng, lay: Lay, isigned: bool, m: u32, a: u128) -> u128 {
    let il = Lay::new(isigned, m, 0);
    let ibits = lay.n as i64 - lay.f as i64; // integer bits of the layout (incl. sign)
    let v: i128 = match rng.below(10) {
        0 | 1 => {
            // floor of the value of a, +- small
            let fl = if lay.f >= 128 { if lay.signed && lay.sext(a) < 0 { -1 } else { 0 } }
                     else if lay.signed { lay.sext(a) >> lay.f } else { (a >> lay.f) as i128 };
            fl.wrapping_add(rng.range(-1, 1) as i128)
        }
        2 | 3 => {
            // ends of the layout's integer range: +-2^(ibits-1) (signed) / 2^ibits (unsigned), +- small
            let e = if lay.signed { ibits - 1 } else { ibits };
            if e < 0 || e > 126 {
                rng.range(-2, 2) as i128
            } else {
                let p = 1i128 << e;
                let s = if lay.signed && rng.chance(1, 2) { -p } else { p };
                s.wrapping_add(rng.range(-2, 2) as i128)
            }
        }
        4 => {
            // twice the range (the "rhs between MAX and 2*MAX" corner)
            let e = if lay.signed { ibits } else { ibits + 1 };
            if e < 0 || e > 126 {
                rng.range(-2, 2) as i128
            } else {
                let p = 1i128 << e;
                (if rng.chance(1, 2) { -p } else { p }).wrapping_add(rng.range(-2, 2) as i128)
            }
        }
        5 => rng.range(-3, 3) as i128,
        _ => return gen_bits(rng, il),
    };
    (v as u128) & il.mask()
}

/// A value of layout `lay` adversarial for conversion to the integer type
/// (`isigned`, `m` bits): integer part at the ends of the integer type's range
/// with assorted fractional parts, or generic.
pub fn gen_fixed_for_int(rng: &mut Rng, lay: Lay, isigned: bool, m: u32) -> u128 {
    if lay.f >= lay.n || rng.chance(1, 2) {
        return gen_round_operand(rng, lay);
    }
    let ends: [i128; 4] = if isigned {
        let p = if m >= 128 { i128::MAX } else { (1i128 << (m - 1)) - 1 };
        [p, -p - 1, 0, -1]
    } else {
        let p = if m >= 127 { i128::MAX } else { (1i128 << m) - 1 };
        [p, 0, -1, 1]
    };
    let ip = ends[rng.below(4) as usize].wrapping_add(rng.range(-1, 1) as i128);
    let fm = mask(lay.f);
    let frac = match rng.below(5) {
        0 => 0,
        1 => 1,
        2 => fm,
        3 => 1u128 << (lay.f.max(1) - 1),
        _ => rng.next128(),
    } & fm;
    (((ip as u128) << lay.f) | frac) & lay.mask()
}

/// For a (src, dst) pair of fixed layouts: a source bit pattern adversarial for
/// conversion/comparison: near dst's range ends expressed in src's grid, values
/// differing from a dst grid point only in bits dst cannot hold, or generic.
pub fn gen_fixed_for_fixed(rng: &mut Rng, src: Lay, dst: Lay) -> u128 {
    let r = rng.below(10);
    if r < 4 {
        return gen_bits(rng, src);
    }
    // dst range end as a power of two in value terms: 2^e
    let dst_int = dst.n as i64 - dst.f as i64;
    let e = match r {
        4 | 5 => if dst.signed { dst_int - 1 } else { dst_int },        // just past MAX / at MIN
        6 => if dst.signed { dst_int } else { dst_int + 1 },            // 2x range
        7 => -(dst.f as i64),                                            // one dst ulp
        8 => -(dst.f as i64) - 1,                                        // half a dst ulp
        _ => rng.range(-(src.f as i64), src.n as i64 - src.f as i64),
    };
    // 2^e in src raw units = 2^(e + src.f)
    let sh = e + src.f as i64;
    if sh < 0 || sh >= src.n as i64 {
        return gen_round_operand(rng, src);
    }
    let p = 1u128 << sh;
    let d = rng.range(-2, 2) as i128 as u128;
    let v = if rng.chance(1, 2) { p.wrapping_add(d) } else { p.wrapping_neg().wrapping_add(d) };
    // optionally add sub-dst-ulp dust
    let dust = if src.f > dst.f && rng.chance(1, 2) { rng.next128() & mask(src.f - dst.f) } else { 0 };
    (v.wrapping_add(dust)) & src.mask()
}

/// A `Hasher` that records the byte stream it is fed.
#[derive(Default)]
pub struct RecHasher(pub Vec<u8>);
impl core::hash::Hasher for RecHasher {
    fn finish(&self) -> u64 {
        0
    }
    fn write(&mut self, bytes: &[u8]) {
        self.0.extend_from_slice(bytes);
    }
}

// ------------------------------------------------------------------ float operand synthesis (raw bits only)

/// (exponent bits, mantissa bits) of binary32 / binary64
pub fn float_fmt(w: u32) -> (u32, u32) {
    if w == 32 { (8, 23) } else { (11, 52) }
}

/// Bits of the float equal to (-1)^neg * m * 2^e if that value is exactly
/// representable (normal or subnormal), else None.  Integer arithmetic only.
pub fn make_float(w: u32, neg: bool, m: u128, e: i32) -> Option<u64> {
    let (eb, mb) = float_fmt(w);
    let bias = (1i32 << (eb - 1)) - 1;
    let sign = (neg as u64) << (w - 1);
    if m == 0 {
        return Some(sign);
    }
    let tz = m.trailing_zeros();
    let m = m >> tz;
    let e = e + tz as i32;
    let len = 128 - m.leading_zeros(); // significant bits
    if len > mb + 1 {
        return None;
    }
    // value = m * 2^e with m odd; top bit at exponent e + len - 1
    let top = e + len as i32 - 1;
    if top > bias {
        return None;
    }
    if top >= 1 - bias {
        // normal: mantissa field = (m << (mb + 1 - len)) without the hidden bit
        let frac = ((m << (mb + 1 - len)) as u64) & ((1u64 << mb) - 1);
        Some(sign | (((top + bias) as u64) << mb) | frac)
    } else {
        // subnormal: units of 2^(1 - bias - mb)
        let sh = e - (1 - bias - mb as i32);
        if sh < 0 {
            return None;
        }
        Some(sign | ((m as u64) << sh))
    }
}

/// A float bit pattern (width w) adversarial for conversion to / comparison
/// with layout `lay`: grid points, exact ties between grid points and their
/// float neighbours, range ends +- half an ulp, zeros, subnormals, top binade,
/// infinities, NaNs, random patterns with exponents around the layout's range.
pub fn gen_float_for(rng: &mut Rng, lay: Lay, w: u32, a: u128) -> u64 {
    let (eb, mb) = float_fmt(w);
    let emax = (1u64 << eb) - 1;
    let wm = if w == 32 { 0xFFFF_FFFFu64 } else { u64::MAX };
    let r = rng.below(100);
    let nudge = |rng: &mut Rng, b: u64| -> u64 {
        match rng.below(4) {
            0 => b.wrapping_add(1) & wm,
            1 => b.wrapping_sub(1) & wm,
            _ => b,
        }
    };
    if r < 45 {
        // raw grid value R (from a, a boundary, or small), optionally + 1/2 (a tie): (2R+1) * 2^-(f+1)
        let rr = match rng.below(6) {
            0 => lay.max_bits(),
            1 => lay.min_bits(),
            2 => a,
            3 => rng.below(8) as u128,
            _ => {
                // short mantissa so that the tie is representable
                let len = 1 + rng.below((mb as u64).min(lay.n as u64));
                let v = (rng.next128() & mask(len as u32)) | (1u128 << (len - 1));
                let sh = rng.below((lay.n as u64 - len + 1).max(1)) as u32;
                (v << sh) & lay.mask()
            }
        };
        let (neg, mag) = if lay.signed { let s = lay.sext(rr); (s < 0, s.unsigned_abs()) } else { (rng.chance(1, 8), rr) };
        let cand = match rng.below(4) {
            0 => make_float(w, neg, mag, -(lay.f as i32)),
            1 => mag.checked_mul(2).and_then(|t| make_float(w, neg, t + 1, -(lay.f as i32) - 1)),
            2 => mag.checked_mul(2).and_then(|t| t.checked_sub(1)).and_then(|t| make_float(w, neg, t, -(lay.f as i32) - 1)),
            _ => mag.checked_mul(4).and_then(|t| make_float(w, neg, t + 1, -(lay.f as i32) - 2)),
        };
        if let Some(b) = cand {
            return nudge(rng, b);
        }
        // not representable exactly: take the top mantissa bits of mag (a float near it)
        let len = 128 - mag.leading_zeros();
        if len > mb + 1 {
            let top = mag >> (len - mb - 1);
            if let Some(b) = make_float(w, neg, top, -(lay.f as i32) + (len - mb - 1) as i32) {
                return nudge(rng, b);
            }
        }
    }
    if r < 60 {
        // specials
        let sign = (rng.below(2)) << (w - 1);
        let b = match rng.below(12) {
            0 => 0,
            1 => 1,                                  // smallest subnormal
            2 => (1u64 << mb) - 1,                   // largest subnormal
            3 => 1u64 << mb,                         // MIN_POSITIVE
            4 => ((emax - 1) << mb) | ((1u64 << mb) - 1), // MAX
            5 => (emax - 1) << mb,                   // bottom of the top binade
            6 => ((emax - 1) << mb) | (rng.next() & ((1u64 << mb) - 1)),
            7 => emax << mb,                         // inf
            8 => (emax << mb) | (1u64 << (mb - 1)),  // quiet NaN
            9 => (emax << mb) | 1,                   // signalling NaN
            10 => (emax << mb) | (rng.next() & ((1u64 << mb) - 1)) | 1,
            _ => rng.next() & ((1u64 << mb) - 1),    // random subnormal
        };
        return (sign | b) & wm;
    }
    if r < 90 {
        // exponent around the layout's range, random or structured mantissa
        let bias = (1i64 << (eb - 1)) - 1;
        let lo = -(lay.f as i64) - 4;
        let hi = (lay.n as i64 - lay.f as i64) + 3;
        let e = rng.range(lo, hi) + bias;
        let e = e.max(0).min(emax as i64 - 1) as u64;
        let man = match rng.below(5) {
            0 => 0,
            1 => (1u64 << mb) - 1,
            2 => 1u64 << (mb - 1),
            3 => 1,
            _ => rng.next(),
        } & ((1u64 << mb) - 1);
        return ((rng.below(2) << (w - 1)) | (e << mb) | man) & wm;
    }
    rng.next() & wm
}

/// A fixed-point pattern whose conversion to a float of width w needs rounding
/// at hostile positions: bits beyond the 24th/53rd are 100..0, 011..1, 100..01.
pub fn gen_fixed_for_float(rng: &mut Rng, lay: Lay, w: u32) -> u128 {
    let (_, mb) = float_fmt(w);
    let p = mb + 1;
    if lay.n <= p + 1 || rng.chance(1, 3) {
        return gen_bits(rng, lay);
    }
    let len = p + 1 + rng.below((lay.n - p) as u64) as u32; // total significant bits, > p
    let len = len.min(lay.n - lay.signed as u32).max(p + 1);
    let t = len - p; // tail bits
    let head = (rng.next128() & mask(p)) | (1u128 << (p - 1));
    let head = match rng.below(4) { 0 => head | 1, 1 => head & !1, 2 => mask(p), _ => head };
    let tail = match rng.below(5) {
        0 => 1u128 << (t - 1),                       // exactly half
        1 => (1u128 << (t - 1)) - 1,                 // just below half
        2 => (1u128 << (t - 1)) + 1,                 // just above half
        3 => 0,
        _ => rng.next128() & mask(t),
    };
    let mag = (head << t) | tail;
    let sh = rng.below((lay.n - lay.signed as u32 - len + 1) as u64) as u32;
    let mag = mag << sh;
    let v = if lay.signed && rng.chance(1, 2) { mag.wrapping_neg() } else { mag };
    v & lay.mask()
}

// ------------------------------------------------------------------ operands for the math functions (raw bits only)

/// pi * 2^125 (floor)
pub const PI_125: u128 = 0x6487ed5110b4611a62633145c06e0e68;
/// e * 2^125 (floor)
pub const E_125: u128 = 0x56fc2a2c515da54d57ee2b10139e9e78;
/// floor(e^k * 2^120) for k = 1..5 (mpmath)
pub const EK_120: [u128; 5] = [
    0x2b7e151628aed2a6abf7158809cf4f3,
    0x763992e35376b730ce8ee881ada2aee,
    0x1415e5bf6fb105f2d4bdfc53744c3a39,
    0x3699205c4e74b0cf1ada77fb727b72da,
    0x9469c4cb819c78fb37d56c91ad5f3a15,
];
/// ln 2 * 2^127 (floor)
pub const LN2_127: u128 = 0x58b90bfbe8e7bcd5e4f1d9cc01f97b57;

/// (a * b) >> sh over the full 256-bit product, truncated to 128 bits
pub fn mul_shr(a: u128, b: u128, sh: u32) -> u128 {
    let (hi, lo) = mul_128(a, b);
    if sh == 0 {
        lo
    } else if sh < 128 {
        (lo >> sh) | (hi << (128 - sh))
    } else if sh == 128 {
        hi
    } else if sh < 256 {
        hi >> (sh - 128)
    } else {
        0
    }
}

/// raw bits (layout lay, signed) of num/den * pi, |result| must fit; k = num, den = 2^dlog
fn pi_multiple(lay: Lay, k: i64, dlog: u32) -> Option<u128> {
    // k * pi / 2^dlog in lay.f fractional bits = (|k| * PI_125) >> (125 + dlog - f)
    if lay.f > 125 {
        return None;
    }
    let mag = mul_shr(k.unsigned_abs() as u128, PI_125, 125 + dlog - lay.f);
    if mag > lay.max_bits() {
        return None;
    }
    Some(from_sign_mag(lay, k < 0, mag))
}

/// SYSTEMATIC block at the EDGE of tan's stated domain (|x| <= 100 and |tan x| <= 64): for every pole (2k+1) pi/2 inside
/// |x| <= 100 and on both sides of it, the angles pole -+ (1/64 + j 2^-22), j = -8..=16, i.e. true tangents from ~64.003 (just
/// outside, not judged) down to ~63.979 in steps of ~0.001.  A guard that treats "close to a pole" as "outside the domain" with a
/// slightly wrong threshold shows only in this sliver (seeded change C16-G: 1.2e-6 of random angles).
pub fn tan_edge_block(lay: Lay) -> Vec<u128> {
    let mut out = Vec::new();
    if lay.f < 22 || !lay.signed {
        return out;
    }
    let one = 1u128 << lay.f;
    for k in -32i64..=31 {
        let base = match pi_multiple(lay, 2 * k + 1, 1) {
            Some(b) => b,
            None => continue,
        };
        for j in -8i64..=16 {
            let step = (one >> 22) * j.unsigned_abs() as u128;
            let delta = if j < 0 { (one >> 6) - step } else { (one >> 6) + step };
            out.push(base.wrapping_add(delta) & lay.mask());
            out.push(base.wrapping_sub(delta) & lay.mask());
        }
    }
    out
}

/// value v (integer) * 2^e as raw bits of lay, if it fits
pub fn pow2_bits(lay: Lay, neg: bool, m: u128, e: i32) -> Option<u128> {
    let sh = e + lay.f as i32;
    let mag = if sh >= 0 {
        if sh >= 128 || (m.leading_zeros() as i32) < sh {
            return None;
        }
        m << sh
    } else if sh > -128 {
        m >> (-sh)
    } else {
        0
    };
    if neg && !lay.signed && mag != 0 {
        return None;
    }
    let lim = if neg { lay.min_bits().max(1) } else { lay.max_bits() };
    if lay.signed && neg {
        if mag > (1u128 << (lay.n - 1)) {
            return None;
        }
    } else if mag > lim {
        return None;
    }
    Some(from_sign_mag(lay, neg, mag))
}

/// Operand for a math function on source layout `s` with destination layout `d`.
/// kind: 0 general (sqrt/log2/ln), 1 exp argument, 2 angle |x|<=200, 3 tan angle |x|<=100,
/// 4 angle of any magnitude (work bound only)
/// f64(atan(2^-i)) * 2^64 for i = 0..12, computed with mpmath (rounded to binary64, then scaled): NOT copied from the library
pub const ATAN_F64_2P64: [u64; 12] = [
    0xC90FDAA22168C000, 0x76B19C1586ED3C00, 0x3EB6EBF25901BA00, 0x1FD5BA9AAC2F6E00, 0x0FFAADDB967EF500, 0x07FF556EEA5D8940,
    0x03FFEAAB776E5360, 0x01FFFD555BBBA970, 0x00FFFFAAAADDDDB8, 0x007FFFF55556EEF0, 0x003FFFFEAAAAB778, 0x001FFFFFD55555BC,
];

pub fn gen_trans_operand(rng: &mut Rng, s: Lay, d: Lay, kind: u32) -> u128 {
    let one = 1u128 << s.f;
    let ulp = rng.range(-3, 3) as i128 as u128;
    let int_d = d.n - d.f - d.signed as u32; // magnitude bits of D
    match kind {
        0 => match rng.below(15) {
            14 => gen_limb_structured(rng, s) & s.max_bits(),
            12 => {
                // simple fractions p/q (4/9, 1/9, 4/25, ...): their reciprocals are (near) perfect squares / short
                // rationals, where truncating iterations oscillate instead of converging
                let p = 1 + rng.below(16) as u128;
                let q = 2 + rng.below(24) as u128;
                let v = (p << s.f) / q;
                (v.wrapping_add(ulp)) & s.max_bits()
            }
            13 => {
                // reciprocal of a perfect square (k/2^h)^2, +- few ulp
                let h = s.f / 2;
                let m = 3 + (rng.next128() & mask((rng.below(10) + 2) as u32));
                let sq = (m * m) << (s.f - 2 * h);
                let (hi, lo) = shl_256(1, 2 * s.f);
                match divrem_256_128(hi, lo, sq.max(1)) {
                    Some((q, _)) => q.wrapping_add(ulp) & s.max_bits(),
                    None => one,
                }
            }
            0 => *rng.pick(&[0u128, 1, 2, 3]),
            1 => one.wrapping_add(ulp) & s.mask(),
            2 => s.max_bits().wrapping_sub(rng.below(3) as u128),
            3 => s.min_bits().wrapping_add(rng.below(3) as u128),
            4 => {
                // 2^k +- few ulp over the whole exponent range of S
                let k = rng.range(-(s.f as i64), (s.n - s.f) as i64 - 1) as i32;
                pow2_bits(s, false, 1, k).map(|b| b.wrapping_add(ulp) & s.mask()).unwrap_or(one)
            }
            5 => {
                // reciprocal limit of D: x ~ 2^-(int_d) .. 2^-(int_d)+1 (1/x just fits / just overflows D)
                let k = -(int_d as i32) + rng.range(-1, 1) as i32;
                pow2_bits(s, false, 1, k).map(|b| b.wrapping_add(ulp) & s.mask()).unwrap_or(1)
            }
            6 => mul_shr(E_125, 1, 125 - s.f.min(125)).wrapping_add(ulp) & s.mask(),
            7 => {
                // perfect squares +- ulp: (m * 2^-h)^2
                let h = s.f / 2;
                let m = rng.next128() & mask((rng.below((s.n as u64 - 2) / 2) + 1) as u32);
                let sq = m.wrapping_mul(m) << (s.f - 2 * h);
                sq.wrapping_add(ulp) & s.max_bits()
            }
            8 => {
                // mantissa 4 - ulp style (repeated squaring lands on 2 +- ulp): sqrt(2)-ish, 2^(1/2^j)
                let k = rng.range(-(s.f as i64) / 2, (s.n - s.f) as i64 - 2) as i32;
                // 1.0110101000001... = sqrt2 = 0xB504F333F9DE6484597D89B3754ABE9F * 2^-127
                let r2: u128 = 0xB504F333F9DE6484597D89B3754ABE9F;
                let sh = 127 - s.f as i32 - k;
                let v = if sh >= 0 && sh < 128 { r2 >> sh } else { one };
                v.wrapping_add(ulp) & s.max_bits()
            }
            9 if s.signed => gen_bits(rng, s),
            _ => {
                // log-uniform positive magnitude
                let len = 1 + rng.below((s.n - s.signed as u32) as u64) as u32;
                (rng.next128() & mask(len)) | (1u128 << (len - 1))
            }
        },
        1 => {
            // exp argument: spread over +-(ln MAX_D + 3), dense near the overflow threshold and near 0/1
            let thr = mul_shr(LN2_127, (int_d as u128) << 20, 127 + 20 - s.f); // int_d * ln2, raw in S
            match rng.below(10) {
                0 => *rng.pick(&[0u128, 1, 2]) ,
                1 => one.wrapping_add(ulp) & s.mask(),
                2 => (thr.wrapping_add(rng.range(-40, 40) as i128 as u128)) & s.mask(),
                3 => (thr.wrapping_add(rng.range(-40, 40) as i128 as u128)).wrapping_neg() & s.mask(),
                4 => s.max_bits(),
                5 => s.min_bits().wrapping_add(rng.below(2) as u128),
                6 => {
                    // small integers and halves
                    let k = rng.range(-(int_d as i64) - 3, int_d as i64 + 3);
                    let half = if rng.chance(1, 2) { one >> 1 } else { 0 };
                    ((k as i128 as u128) << s.f).wrapping_add(half) & s.mask()
                }
                7 => gen_bits(rng, s),
                _ => {
                    // uniform in [-thr-3, thr+3]
                    let span = thr.wrapping_add(3 * one);
                    let v = if span == 0 { 0 } else { rng.next128() % span };
                    if rng.chance(1, 2) { v.wrapping_neg() & s.mask() } else { v & s.mask() }
                }
            }
        }
        2 | 3 => {
            let lim: i64 = if kind == 2 { 200 } else { 100 };
            let limraw = (lim as u128) << s.f;
            match rng.below(11) {
                10 => {
                    // signed sums of the first m double-precision arctangents atan(2^-i): the angles at which a CORDIC
                    // rotation's residual becomes exactly zero after m steps (tables are commonly given in f64 precision),
                    // exact or +- few ulp; also the plain f64 values of pi/4, pi/2 ... that callers feed from std consts
                    let m = 1 + rng.below(10) as usize;
                    let mut acc: i128 = 0;
                    for (i, a) in ATAN_F64_2P64[..m].iter().enumerate() {
                        if i == 0 || rng.chance(1, 2) { acc += *a as i128 } else { acc -= *a as i128 }
                    }
                    if rng.chance(1, 4) {
                        acc = (ATAN_F64_2P64[0] as i128) * (1 + rng.below(8) as i128); // k * f64(pi/4)
                    }
                    if rng.chance(1, 2) {
                        acc = -acc;
                    }
                    let v = if s.f >= 64 { (acc as u128) << (s.f - 64).min(63) } else { (acc >> (64 - s.f)) as u128 };
                    let v = if rng.chance(1, 2) { v } else { v.wrapping_add(ulp) };
                    if s.signed { v & s.mask() } else { v & s.max_bits() }
                }
                0 | 1 | 2 => {
                    // k * pi/4 +- few ulp
                    let kmax = lim * 4 * 1000 / 3142; // floor(lim / (pi/4)) conservative
                    let k = rng.range(-kmax, kmax);
                    pi_multiple(s, k, 2).map(|b| b.wrapping_add(ulp) & s.mask()).unwrap_or(0)
                }
                3 => {
                    // tan poles +- 1/64 region: (2k+1) pi/2 +- (1/64 + small)
                    let kmax = lim * 2 * 1000 / 3142 - 1;
                    let k = rng.range(-kmax / 2 - 1, kmax / 2);
                    let base = pi_multiple(s, 2 * k + 1, 1).unwrap_or(0);
                    let delta = (one >> 6).wrapping_add((rng.range(-2000, 2000) as i128 as u128).wrapping_mul((one >> 20).max(1)));
                    if rng.chance(1, 2) { base.wrapping_add(delta) & s.mask() } else { base.wrapping_sub(delta) & s.mask() }
                }
                4 => {
                    let v = *rng.pick(&[limraw, limraw.wrapping_neg(), 0, 1, one]);
                    v.wrapping_add(if v == limraw { (rng.below(3) as u128).wrapping_neg() } else if v == limraw.wrapping_neg() { rng.below(3) as u128 } else { ulp }) & s.mask()
                }
                5 => {
                    // tiny angles
                    let len = 1 + rng.below(s.f.min(40) as u64) as u32;
                    let v = rng.next128() & mask(len);
                    if rng.chance(1, 2) { v.wrapping_neg() & s.mask() } else { v }
                }
                _ => {
                    let v = rng.next128() % (limraw + 1);
                    if rng.chance(1, 2) { v.wrapping_neg() & s.mask() } else { v }
                }
            }
        }
        _ => match rng.below(7) {
            6 => gen_limb_structured(rng, s),
            0 => s.max_bits().wrapping_sub(rng.below(3) as u128),
            1 => s.min_bits().wrapping_add(rng.below(3) as u128),
            2 => {
                let k = rng.range(0, (s.n - s.f) as i64 - 2) as i32;
                pow2_bits(s, rng.chance(1, 2), 1, k).unwrap_or(one)
            }
            3 => gen_trans_operand(rng, s, d, 2),
            _ => gen_bits(rng, s),
        },
    }
}

// ------------------------------------------------------------------ directed: schoolbook middle-column carry boundary (128-bit)

/// sign-magnitude 256-bit helper: (neg, hi, lo)
type Sm = (bool, u128, u128);

fn sm_add(a: Sm, b: Sm) -> Sm {
    if a.0 == b.0 {
        let (lo, c) = a.2.overflowing_add(b.2);
        (a.0, a.1.wrapping_add(b.1).wrapping_add(c as u128), lo)
    } else {
        // a + b with opposite signs: larger magnitude wins
        let a_ge = (a.1, a.2) >= (b.1, b.2);
        let (x, y) = if a_ge { (a, b) } else { (b, a) };
        let (lo, br) = x.2.overflowing_sub(y.2);
        (x.0, x.1.wrapping_sub(y.1).wrapping_sub(br as u128), lo)
    }
}

/// For a 128-bit operand `a` (limbs lh:ll), a partner `b` (rh:rl) such that the middle column of the
/// schoolbook product, lh*rl + ll*rh, lands within one low-limb multiple of a wrap boundary
/// (k*2^128 for the unsigned carry, +-2^127 for the signed overflow): the carry out of that column then
/// depends on the high half of ll*rl, i.e. both "just carries" and "just does not carry" are produced.
/// This is the adversarial input for the carry handling named in C01's anchors (found necessary by the
/// reach audit / seeded changes C01-E, C02-E: random and boundary operands hit this with p ~ 2^-65).
pub fn gen_mul_carry_partner(rng: &mut Rng, lay: Lay, a: u128) -> Option<u128> {
    if lay.n != 128 {
        return None;
    }
    let ll = a & (u64::MAX as u128);
    if ll == 0 {
        return None;
    }
    let lh_u = a >> 64;
    let (lh_neg, lh_mag) = if lay.signed && (lh_u >> 63) == 1 {
        (true, (lh_u as u64 as i64).unsigned_abs() as u128)
    } else {
        (false, lh_u)
    };
    let rl = match rng.below(4) {
        0 => u64::MAX as u128,
        1 => (u64::MAX as u128) - rng.below(4) as u128,
        _ => (rng.next() as u128) | (1u128 << 63),
    };
    // P = lh * rl (sign-magnitude, < 2^128)
    let p: Sm = (lh_neg, 0, lh_mag.wrapping_mul(rl));
    // target A = k*2^128 + t
    let t = if lay.signed && rng.chance(1, 2) { 1u128 << 127 } else { 0 };
    let k = rng.range(-1, 1);
    let a_sm: Sm = if k >= 0 {
        (false, k as u128, t)
    } else if t == 0 {
        (true, 1, 0)
    } else {
        (true, 0, 1u128 << 127)
    };
    // N = A - P
    let n = sm_add(a_sm, (!p.0, p.1, p.2));
    let (q, _) = divrem_256_128(n.1, n.2, ll)?;
    let q = q.wrapping_add(rng.range(-1, 1) as i128 as u128);
    if lay.signed {
        if q > (1u128 << 63) {
            return None;
        }
        let rh = if n.0 { (q as u64).wrapping_neg() } else { q as u64 };
        if !n.0 && q == (1u128 << 63) {
            return None;
        }
        Some(((rh as u128) << 64) | rl)
    } else {
        if n.0 || q > u64::MAX as u128 {
            return None;
        }
        Some((q << 64) | rl)
    }
}
