"""plans for properties whose workload is not the plain per-stream shape: C11
(differential trace monitor over the other properties' drivers)."""
import json
import os

import plans
from plans import S, LAYOUT, XPAIR, TRANS, PY, ROOT

DIFF = os.path.join(ROOT, "monitors", "diff11.py")

# the other properties' corpora at reduced n (quick) / half n (thorough)
C11_STREAMS = [
    S("arith", n={"quick": 400, "thorough": 6000}),
    S("rem", n={"quick": 800, "thorough": 10000}),
    S("round", n={"quick": 1500, "thorough": 15000}),
    S("convi", n={"quick": 80, "thorough": 600}),
    S("xtype", chunks=XPAIR, n={"quick": 200, "thorough": 1200}),
    S("flt", n={"quick": 800, "thorough": 8000}),
    S("parse", n={"quick": 150, "thorough": 1200}, gen=os.path.join(ROOT, "gen", "c08.py")),
    S("fmt", n={"quick": 150, "thorough": 1500}),
    S("codec", n={"quick": 300, "thorough": 3000}),
    S("wrap", n={"quick": 120, "thorough": 1200}),
    S("trans", chunks=TRANS, n={"quick": 1500, "thorough": 20000}, shards={"quick": 16, "thorough": 4}),
]

# Pointer-width supplement (thorough tier): the quick driver bins interpreted by Miri for i686-unknown-linux-gnu
# (32-bit usize/isize/pointers, as on wasm32; no wasm32 std can be built offline here) with release semantics,
# compared line by line with the native x86-64 release build of the same driver and arguments.
# n per (body): sized for ~2-4 minutes of interpretation per process (Miri runs ~10-40 events/s).
PTR32_N = {"arith": 4, "rem": 14, "round": 40, "convi": 3, "xtype": 8, "flt": 2, "parse": 3, "fmt": 5, "codec": 1, "wrap": 3, "trans": 5}
PTR32_ONLY = {"codec": "i8.0,u8.8,i16.8,u32.31,i64.32,u64.64,i128.0,u128.127,i128.128,i32.0,u16.0,i128.64"}
PTR32_MAX_PAIRS = 1200   # per process: ~1-3 minutes of interpretation
PTR32_MAX_BY_BODY = {"parse": 600, "fmt": 700, "trans": 700}
MIRI_TARGET = "i686-unknown-linux-gnu"
MIRI_DIR = os.path.join(ROOT, "harness", "target-miri32")


def miri32_cmd(b, args):
    return {"argv": ["cargo", "+nightly", "miri", "run", "--release", "--target", MIRI_TARGET, "--target-dir", MIRI_DIR, "--bin", b, "--"] + args,
            "cwd": os.path.join(ROOT, "harness"), "env": {"MIRIFLAGS": "-Zmiri-disable-isolation -Zmiri-address-reuse-rate=1.0", "CARGO_NET_OFFLINE": "true"}}


RULE = ("one evaluation = one aligned pair of event lines: the same driver binary built with (debug-assertions + overflow-checks on) and "
        "(both off) is run with identical arguments (same seed => identical operand sequence) over the corpora of C01, C02, C04-C10, "
        "C12-C18 (arith, rem, round, convi, xtype, flt, parse, fmt, codec, wrap, trans drivers); every outcome token is compared; a "
        "checked-only panic is permitted only at positions the per-property exact oracle marks as an operation without overflow handling "
        "whose result does not fit, a zero divisor or a non-finite float; a coverage cell is (layout, op, same/permitted/value); all "
        "cells count as non-trivial (every pair is a real two-profile comparison); misalignment of the two streams is INCONCLUSIVE")


def plan(prop, tier, seed):
    if prop != "C11":
        raise SystemExit("no plan for %s" % prop)
    bins = set()
    for st in C11_STREAMS:
        bins.update(plans.stream_bins(st, tier))

    def jobs(bin_path):
        js = []
        for st in C11_STREAMS:
            shards = st["shards"][tier]
            for b in plans.stream_bins(st, tier):
                for s in range(shards):
                    args = ["--seed", str(seed), "--n", str(st["n"][tier]), "--shard", "%d/%d" % (s, shards)] + st["args"]
                    mon = [PY, DIFF, json.dumps([bin_path("checked", b)] + args), json.dumps([bin_path("release", b)] + args)]
                    if st.get("gen"):
                        mon.append(json.dumps([PY, st["gen"], "--seed", str(seed), "--n", str(st["n"][tier]),
                                               "--chunk", b.split("_", 1)[1], "--shard", "%d/%d" % (s, shards)]))
                    js.append(dict(kind="mon", body=st["body"], mon=mon, timeout=1800 if tier == "quick" else 4 * 3600))
        if tier == "thorough":
            for st in C11_STREAMS:
                body = st["body"]
                n = PTR32_N[body]
                for b in plans.stream_bins(st, "quick"):
                    args = ["--seed", str(seed), "--n", str(n)] + st["args"]
                    if body in PTR32_ONLY:
                        args += ["--only", PTR32_ONLY[body]]
                    gen = None
                    if st.get("gen"):
                        # the stdin-driven driver reads its whole input first: cut the literal stream to the budget up front
                        gen = ["bash", "-c", "%s %s --seed %d --n %d --chunk %s --shard %d/9 2>/dev/null | head -n %d" % (
                            PY, st["gen"], seed, n, b.split("_", 1)[1], (seed + len(js)) % 9, PTR32_MAX_BY_BODY.get(body, PTR32_MAX_PAIRS))]
                    mon = [PY, DIFF, json.dumps(miri32_cmd(b, args)), json.dumps([bin_path("release", b)] + args), json.dumps(gen),
                           json.dumps({"mode": "ptr32", "max_pairs": PTR32_MAX_BY_BODY.get(body, PTR32_MAX_PAIRS)})]
                    js.append(dict(kind="mon", body=body, label="ptr32", mon=mon, timeout=3 * 3600))
        return js

    def floor(M):
        if M["evaluations"] == 0:
            return "no aligned pairs observed"
        need = ["add", "mul", "div", "rem", "round", "fi", "ff", "fl", "ps", "fm", "cd", "wbin", "wprog", "sqrt", "exp", "sin", "powi"]
        missing = [o for o in need if M["ops"].get(o, 0) == 0]
        if missing:
            return "corpora never observed: %s" % ",".join(missing)
        if not M["extra"].get("permitted_checked_only_panics"):
            return "no permitted checked-only panic was observed: the checking profile does not seem to be active"
        if tier == "thorough" and M["extra"].get("ptr32_aligned_pairs", 0) < 5000:
            return "pointer-width supplement observed only %s aligned pairs" % M["extra"].get("ptr32_aligned_pairs", 0)
        return None
    rule = RULE
    build = {"checked": set(bins), "release": set(bins)}
    pre = []
    if tier == "thorough":
        qb = set()
        for st in C11_STREAMS:
            qb.update(plans.stream_bins(st, "quick"))
        build["release"] = set(bins) | qb
        rule += ("; thorough adds a POINTER-WIDTH supplement: every quick driver bin is also interpreted by Miri for a 32-bit target "
                 "(i686: usize/isize/pointers 32 bits wide, as on wasm32; release semantics) and compared token by token with the native "
                 "x86-64 release build on identical arguments; no panic asymmetry is permitted there; usize/isize-typed events are "
                 "pointer-width typed by design and skipped (counted in coverage.extra.ptr32_*)")
        # one sequential warm-up so that the 32-bit Miri sysroot and the dependency crates are built once, not by 44 racing processes
        pre = [miri32_cmd("round_qa", ["--seed", "1", "--n", "0"])]
    return dict(module="diff11", build=build, pre=pre, jobs=jobs, floor=floor, rule=rule,
                assumptions=plans.ASSUME + ["both builds receive identical operand sequences (checked line by line; misalignment aborts the run as inconclusive)"],
                body=None)


def replay_plan(prop, hdr, lines):
    if prop != "C11":
        raise SystemExit("no replay plan for %s" % prop)
    op = lines[0].split()[0]
    body = plans.ALL_OP_BODY[op]
    b = plans.replay_bin(body, lines[0])

    if hdr.get("profile", "").startswith("ptr32"):
        # a witness of the pointer-width supplement: re-run it through the 32-bit interpreter against the native build
        def job32(bin_path, prof, inp):
            mon = [PY, DIFF, json.dumps(miri32_cmd(b, ["--stdin"])), json.dumps([bin_path("release", b), "--stdin"]),
                   json.dumps(["cat", inp]), json.dumps({"mode": "ptr32"})]
            return dict(kind="mon", mon=mon, timeout=3600)
        return dict(build={"release": {b}}, profiles=["ptr32(miri-i686)-vs-native"], job=job32)

    def job(bin_path, prof, inp):
        mon = [PY, DIFF, json.dumps([bin_path("checked", b), "--stdin"]), json.dumps([bin_path("release", b), "--stdin"]),
               json.dumps(["cat", inp])]
        return dict(kind="mon", mon=mon, timeout=600)
    return dict(build={"checked": {b}, "release": {b}}, profiles=["checked-vs-release"], job=job)


def setup_build(bins):
    for st in C11_STREAMS:
        for p in ("checked", "release"):
            bins[p].update(plans.stream_bins(st, "quick"))
