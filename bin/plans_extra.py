"""plans for properties whose workload is not the plain per-layout shape"""


def plan(prop, tier, seed):
    raise SystemExit("no plan for %s" % prop)


def replay_plan(prop, hdr, lines):
    raise SystemExit("no replay plan for %s" % prop)


def setup_build(bins):
    pass
