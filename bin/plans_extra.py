"""plans for properties whose workload is not the plain per-stream shape: C11
(differential trace monitor over the other properties' drivers)."""
import json
import os

import plans
from plans import S, LAYOUT, XPAIR, TRANS, PY, ROOT

DIFF = os.path.join(ROOT, "monitors", "diff11.py")

# the other properties' corpora at reduced n (quick) / half n (thorough)
C11_STREAMS = [
    S("arith", n={"quick": 400, "thorough": 6000}),
    S("rem", n={"quick": 800, "thorough": 10000}),
    S("round", n={"quick": 1500, "thorough": 15000}),
    S("convi", n={"quick": 80, "thorough": 600}),
    S("xtype", chunks=XPAIR, n={"quick": 200, "thorough": 1200}),
    S("flt", n={"quick": 800, "thorough": 8000}),
    S("parse", n={"quick": 150, "thorough": 1200}, gen=os.path.join(ROOT, "gen", "c08.py")),
    S("fmt", n={"quick": 150, "thorough": 1500}),
    S("codec", n={"quick": 300, "thorough": 3000}),
    S("wrap", n={"quick": 120, "thorough": 1200}),
    S("trans", chunks=TRANS, n={"quick": 1500, "thorough": 20000}, shards={"quick": 16, "thorough": 4}),
]

RULE = ("one evaluation = one aligned pair of event lines: the same driver binary built with (debug-assertions + overflow-checks on) and "
        "(both off) is run with identical arguments (same seed => identical operand sequence) over the corpora of C01, C02, C04-C10, "
        "C12-C18 (arith, rem, round, convi, xtype, flt, parse, fmt, codec, wrap, trans drivers); every outcome token is compared; a "
        "checked-only panic is permitted only at positions the per-property exact oracle marks as an operation without overflow handling "
        "whose result does not fit, a zero divisor or a non-finite float; a coverage cell is (layout, op, same/permitted/value); all "
        "cells count as non-trivial (every pair is a real two-profile comparison); misalignment of the two streams is INCONCLUSIVE")


def plan(prop, tier, seed):
    if prop != "C11":
        raise SystemExit("no plan for %s" % prop)
    bins = set()
    for st in C11_STREAMS:
        bins.update(plans.stream_bins(st, tier))

    def jobs(bin_path):
        js = []
        for st in C11_STREAMS:
            shards = st["shards"][tier]
            for b in plans.stream_bins(st, tier):
                for s in range(shards):
                    args = ["--seed", str(seed), "--n", str(st["n"][tier]), "--shard", "%d/%d" % (s, shards)] + st["args"]
                    mon = [PY, DIFF, json.dumps([bin_path("checked", b)] + args), json.dumps([bin_path("release", b)] + args)]
                    if st.get("gen"):
                        mon.append(json.dumps([PY, st["gen"], "--seed", str(seed), "--n", str(st["n"][tier]),
                                               "--chunk", b.split("_", 1)[1], "--shard", "%d/%d" % (s, shards)]))
                    js.append(dict(kind="mon", body=st["body"], mon=mon, timeout=1800 if tier == "quick" else 4 * 3600))
        return js

    def floor(M):
        if M["evaluations"] == 0:
            return "no aligned pairs observed"
        need = ["add", "mul", "div", "rem", "round", "fi", "ff", "fl", "ps", "fm", "cd", "wbin", "wprog", "sqrt", "exp", "sin", "powi"]
        missing = [o for o in need if M["ops"].get(o, 0) == 0]
        if missing:
            return "corpora never observed: %s" % ",".join(missing)
        if not M["extra"].get("permitted_checked_only_panics"):
            return "no permitted checked-only panic was observed: the checking profile does not seem to be active"
        return None
    return dict(module="diff11", build={"checked": set(bins), "release": set(bins)}, jobs=jobs, floor=floor, rule=RULE,
                assumptions=plans.ASSUME + ["both builds receive identical operand sequences (checked line by line; misalignment aborts the run as inconclusive)"],
                body=None)


def replay_plan(prop, hdr, lines):
    if prop != "C11":
        raise SystemExit("no replay plan for %s" % prop)
    op = lines[0].split()[0]
    body = plans.ALL_OP_BODY[op]
    b = plans.replay_bin(body, lines[0])

    def job(bin_path, prof, inp):
        mon = [PY, DIFF, json.dumps([bin_path("checked", b), "--stdin"]), json.dumps([bin_path("release", b), "--stdin"]),
               json.dumps(["cat", inp])]
        return dict(kind="mon", mon=mon, timeout=600)
    return dict(build={"checked": {b}, "release": {b}}, profiles=["checked-vs-release"], job=job)


def setup_build(bins):
    for st in C11_STREAMS:
        for p in ("checked", "release"):
            bins[p].update(plans.stream_bins(st, "quick"))
