"""Per-property run plans: which driver binaries (and build profiles) produce
the workload, which monitor judges it, the event budgets per tier, and the
coverage floor below which a run is INCONCLUSIVE rather than "held"."""
import os

ROOT = os.path.dirname(os.path.dirname(os.path.abspath(__file__)))
MON = os.path.join(ROOT, "monitors", "mon.py")
PY = "python3-vt"

QUICK_CHUNKS = ["qa", "qb", "qc", "qd"]
ALL_CHUNKS = ["is", "us", "i32", "u32", "i64a", "i64b", "u64a", "u64b",
              "i128a", "i128b", "i128c", "i128d", "u128a", "u128b", "u128c", "u128d"]
XQ = ["xq%d" % i for i in range(4)]
XT = ["xt%d" % i for i in range(16)]
TRANS_Q = ["q"]
TRANS_ALL = ["t%d" % i for i in range(8)]

LAYOUT = {"quick": QUICK_CHUNKS, "thorough": ALL_CHUNKS}
XPAIR = {"quick": XQ, "thorough": XT}
TRANS = {"quick": TRANS_Q, "thorough": TRANS_ALL}

# ---------------------------------------------------------------- layout helpers


def quick_fracs(w):
    s = {0, 1, 2, w // 4, w // 2 - 1, w // 2, w // 2 + 1, 3 * w // 4, w - 2, w - 1, w}
    if w == 8:
        s = set(range(9))
    return sorted(s)


def chunk_of(layname, prefer_quick=True):
    """which generated bin chunk contains a layout"""
    signed = layname[0] == "i"
    n, f = map(int, layname[1:].split("."))
    p = "i" if signed else "u"
    if prefer_quick and f in quick_fracs(n):
        if n <= 32:
            return "qa" if signed else "qb"
        return "qc" if signed else "qd"
    if n <= 16:
        return p + "s"
    if n == 32:
        return p + "32"
    if n == 64:
        return p + ("64a" if f <= 32 else "64b")
    return p + "128" + ("a" if f <= 32 else "b" if f <= 64 else "c" if f <= 96 else "d")


# ---------------------------------------------------------------- streams
# A stream = one driver body run over a family of generated bins.
#   n      : `--n` per tier (events per layout / type pair knob)
#   shards : processes per bin per tier


def S(body, chunks=LAYOUT, n=None, shards=None, args=None, args_tier=None, gen=None, gen_args=None, only_profiles=None):
    return dict(body=body, chunks=chunks, n=n or {"quick": 1000, "thorough": 8000},
                shards=shards or {"quick": 4, "thorough": 2}, args=args or [], args_tier=args_tier or {}, gen=gen, gen_args=gen_args or {},
                only_profiles=only_profiles)


def LIGHT(body, n, gen=None):
    """quick tier only: a LIGHT pass over ALL 506 layouts (the 16 thorough bins, release profile, small n) next to the
    boundary-heavy 106-layout workload, so that a slip confined to one fractional-bit count outside the quick set
    (e.g. a digit budget wrong for Frac = 103 only: seeded change C09-G) is inside the reach of the every-change check"""
    return S(body, chunks={"quick": ALL_CHUNKS, "thorough": []}, n={"quick": n, "thorough": 0}, shards={"quick": 1, "thorough": 1},
             gen=gen, only_profiles=["release"])


ST_ARITH = S("arith", n={"quick": 1500, "thorough": 12000}, args_tier={"thorough": ["--exhaustive", "1"]})
ST_ROUND = S("round", n={"quick": 6000, "thorough": 40000}, args_tier={"thorough": ["--exhaustive", "1"]})
ST_REM = S("rem", n={"quick": 4000, "thorough": 30000}, args_tier={"thorough": ["--exhaustive", "1"]})
ST_CONVI = S("convi", n={"quick": 250, "thorough": 1500})
ST_XTYPE = S("xtype", chunks=XPAIR, n={"quick": 600, "thorough": 3000})
ST_FLT = S("flt", n={"quick": 3000, "thorough": 20000}, args_tier={"thorough": ["--exhaustive", "1"]})
ST_X8_CONV = S("xtype", chunks={"quick": [], "thorough": ["x8%d" % i for i in range(4)]}, n={"quick": 0, "thorough": 0},
               shards={"quick": 1, "thorough": 4}, args_tier={"thorough": ["--exhaustive", "1"]})
ST_X8_CMP = S("xtype", chunks={"quick": [], "thorough": ["x8%d" % i for i in range(4)]}, n={"quick": 0, "thorough": 0},
              shards={"quick": 1, "thorough": 4}, args_tier={"thorough": ["--exhaustive", "2"]})
ST_FROMTO = S("fromto", chunks={"quick": [None], "thorough": [None]}, n={"quick": 40, "thorough": 600}, shards={"quick": 1, "thorough": 1})
ST_CODEC = S("codec", n={"quick": 1500, "thorough": 8000})
ST_FMT = S("fmt", n={"quick": 500, "thorough": 4000}, args_tier={"thorough": ["--exhaustive", "2"]})
ST_WRAP = S("wrap", n={"quick": 400, "thorough": 3000})
ST_FMT_DIR = S("fmt", n={"quick": 100, "thorough": 600}, shards={"quick": 1, "thorough": 1}, args=["--stdin"],
               gen=os.path.join(ROOT, "gen", "c09.py"))
ST_PARSE = S("parse", n={"quick": 500, "thorough": 2500}, gen=os.path.join(ROOT, "gen", "c08.py"), gen_args={"thorough": ["--exhaustive", "1"]})
ST_PARSE_SMALL = S("parse", n={"quick": 150, "thorough": 800}, gen=os.path.join(ROOT, "gen", "c08.py"))

LT_ARITH = LIGHT("arith", 40)
LT_ROUND = LIGHT("round", 300)
LT_REM = LIGHT("rem", 100)
LT_CONVI = LIGHT("convi", 12)
LT_FLT = LIGHT("flt", 150)
LT_CODEC = LIGHT("codec", 60)
LT_FMT = LIGHT("fmt", 40)
LT_PARSE = LIGHT("parse", 60, gen=os.path.join(ROOT, "gen", "c08.py"))
LT_WRAP = LIGHT("wrap", 24)
LIGHT_RULE = ("; the quick tier adds a light pass (release profile, few events per layout plus the systematic blocks) over ALL 506 layouts")

GEN_RULE = ("operands come from the seeded in-driver generator: boundary constants (0, +-ulp, +-1, MIN, MAX, 2^k+-1), log-uniform "
            "magnitudes, sparse/dense/limb-structured patterns and result-targeted partners; ")

PLANS = {
    "C01": dict(exhaustive={"thorough": True}, module="arith", streams=[ST_ARITH, LT_ARITH], profiles=["release", "checked"],
                rule="one event = one (layout, op, operand pair) with all API forms of the op; " + GEN_RULE +
                     "partners are solved so the exact product/quotient lands within 2 ulp of a range bound or of zero; a coverage "
                     "cell is (layout, op, class(a), class(b), fits/over+/over-/div0); distinct_nontrivial counts distinct cells whose "
                     "operands are neither 0 nor 1.0 (an undercount of distinct inputs)",
                need_ops=["mul", "div", "mul_r", "div_r"]),
    "C02": dict(exhaustive={"thorough": True}, module="arith", streams=[ST_ARITH, LT_ARITH], profiles=["release", "checked"],
                rule="one event = one (layout, op, operands) with the checked/saturating/wrapping/overflowing/plain forms of the op; "
                     + GEN_RULE + "a coverage cell is (layout, op, class(a), class(b), fits/over+/over-/div0); distinct_nontrivial "
                     "counts distinct cells whose operands are neither 0 nor 1.0",
                need_ops=["neg", "abs", "add", "sub", "mul", "div", "mul_int", "div_int"]),
    "C03": dict(exhaustive={"thorough": True}, module="cmpm", streams=[ST_CONVI, ST_XTYPE, ST_FLT, ST_X8_CMP, LT_CONVI, LT_FLT], profiles=["release", "checked"],
                quick_profiles=["release"],
                rule="one event = one (lhs layout, lhs value, rhs type, rhs value) with == != < <= > >= partial_cmp in both operand "
                     "orders (same-type events add cmp/max/min and the Hash byte stream); rhs is one of the 12 primitive integer "
                     "types, f32/f64 (grid points, exact ties, float neighbours, top binade, subnormals, +-0, +-inf, NaNs) or another "
                     "fixed layout (100 family pairs x 6 (quick) / 40 (thorough) Frac combinations), chosen equal in value, differing "
                     "only in bits the lhs cannot hold, or lying in (MAX, 2*MAX] / [2*MIN, MIN) of the lhs; a coverage cell is "
                     "(type pair, class(lhs), ordering outcome, rhs in-range/overflowing/lost-bits class); non-trivial = no operand 0",
                need_ops=["cmp:i8", "cmp:u128", "cmpff", "cmpsame", "cmpf32", "cmpf64"], nlay={"quick": 506 + 600, "thorough": 506 + 4000}),
    "C04": dict(exhaustive={"thorough": True}, module="conv", streams=[ST_CONVI, ST_XTYPE, ST_FROMTO, ST_X8_CONV, LT_CONVI], profiles=["release", "checked"], probes=True,
                rule="one event = one source value converted through from_num/to_num and their checked_/saturating_/wrapping_/"
                     "overflowing_ forms in both spellings: integer<->fixed for all 12 primitive integer types on every layout, "
                     "bool->fixed, and fixed->fixed over 100 family pairs x 6 (quick) / 40 (thorough) Frac combinations; sources sit at "
                     "the destination's range ends +-2 ulp, at 2x the range, at one/half destination ulp, or are structured patterns; "
                     "From / LossyFrom (fixed->fixed, integer<->fixed, bool->fixed; fixed->float on every Frac of the lossless pairs) on 833 generated type pairs at the EDGE of the legal "
                     "region (equal integer bits, equal Frac, unsigned->signed needing exactly one more bit); 25 forbidden-conversion "
                     "probes one step OUTSIDE the region are compiled on every run: each must be refused by the compiler, one that "
                     "compiles is executed and its events are judged like any other; "
                     "a coverage cell is (type pair, class(source), fits/over+/over- [+lost bits]); non-trivial = source != 0",
                need_ops=["fi:i8", "fi:u128", "fb", "ff", "fx:from", "fx:lossy", "fxf", "zf", "zb", "zi:i8", "zi:u128"], nlay={"quick": 506 + 599 + 389, "thorough": 506 + 3900 + 389}),
    "C05": dict(exhaustive={"thorough": True}, module="fltm", streams=[ST_FLT, ST_FROMTO, LT_FLT], profiles=["release", "checked"],
                rule="one event = one (layout, fixed value, float bit pattern) with from_num and its four overflow forms, to_num::<f32|f64> "
                     "and its forms, LossyFrom, the az cast traits, and From<F> for f32/f64 on the generated lossless pairs (fromto driver); floats are exact grid points, exact ties between grid points and the adjacent floats, range "
                     "ends +- half an ulp, +-0, smallest/largest subnormals, MIN_POSITIVE, the top binade up to MAX, +-inf, quiet/signalling "
                     "NaNs, and exponents spread around the layout's range; fixed values have tails 100..0 / 011..1 / 100..01 beyond the "
                     "24th/53rd significant bit; a coverage cell is (layout, float width, float class, fits/over/tie/exact, class of the "
                     "float result, rounded/exact); non-trivial = neither side zero",
                need_ops=["fl32", "fl64", "zl32", "zl64", "fxf32", "fxf64"]),
    "C08": dict(exhaustive={"thorough": True}, module="parsem", streams=[ST_PARSE, LT_PARSE], profiles=["release", "checked"],
                rule="one event = one (layout, radix, literal) parsed by from_str* and its saturating_/wrapping_/overflowing_ forms; literals "
                     "are written by gen/c08.py from EXACT radix expansions of grid points, rounding ties (2R+1)/2^(f+1), quarter points and "
                     "range ends +- half an ulp of the target layout: the expansion itself, proper prefixes, the expansion with 0..0d appended "
                     "(1-200 zeros, crossing the fast-path digit budgets 3/6/13/27/54), the predecessor ..(d-1)99..9, single-digit "
                     "perturbations, leading/trailing zeros, signs, empty integer/fraction part, upper/lower hex, 1000-digit integers, plus a "
                     "malformed corpus (no digits, two points, misplaced signs, blanks, exponents, prefixes, wrong-radix digits, non-ASCII "
                     "digits); a coverage cell is (layout, radix, grid/tie/hair-from-tie/near-tie/generic/malformed, fits/over+/over-, digit "
                     "count class, sign); non-trivial = well-formed and non-zero",
                need_ops=["ps10", "ps2", "ps8", "ps16"]),
    "C09": dict(exhaustive={"thorough": True}, module="fmtm", streams=[ST_FMT, ST_FMT_DIR, LT_FMT], profiles=["release", "checked"],
                rule="one event = one (layout, value, trait, flag set, width, precision) formatted through a trait object, plus one round-trip "
                     "event (to_string, FromStr of it) per value; traits Display/Debug/Binary/Octal/LowerHex/UpperHex, flag sets "
                     "{none,+,#,0,+#0,<,^,>,*^,*<+#}, widths {none,0,1,7,40,150}, precisions {none,0,1..4,around frac bits,<60,<=200}; values are "
                     "boundary/structured patterns, integer/half-integer neighbours and values within 2 ulp of k/10^d and (k+1/2)/10^d "
                     "(remainder just below/at/above a decimal digit boundary); thorough enumerates all values of the 8-bit layouts x 24 specs; "
                     "the monitor strips padding/sign/prefix with a model of core::fmt conventions and requires the digits shown to equal "
                     "round-half-even(|value| * radix^d); a coverage cell is (layout, trait, class(value), flag set, width?, precision class, "
                     "exact/rounded); non-trivial = value != 0",
                need_ops=["fr", "fm:Display", "fm:Debug", "fm:Binary", "fm:Octal", "fm:LowerHex", "fm:UpperHex"]),
    "C18": dict(module="wrapm", module_by_body={"parse": "parsem"}, streams=[ST_WRAP, ST_PARSE_SMALL, LT_WRAP], profiles=["checked", "release"],
                rule="one event = one Wrapping<F> operation in all its spellings (w op r, &w op r, w op &r, &w op &r, w op= r, w op= &r): "
                     "neg, not, + - * / %, & | ^, * / % by an integer, << >> with all 12 amount types (negative, >= width, near the "
                     "amount type's maximum), div_euclid/rem_euclid(+_int), sum/product over 0-5 elements by value and by reference, 23 "
                     "methods (int, frac, rounding, abs, signum, next_power_of_two, bit counts, rotations, ...), from_num/to_num for "
                     "7 integer types, f32/f64 and bool, FromStr/from_str_* (gen/c08.py literals), and short programs of 3-8 random steps "
                     "whose every intermediate value is logged; the oracle is the exact result reduced modulo 2^n (shift amounts modulo n); "
                     "the checked profile is the deciding one (a forwarder wired to the plain operator only shows with checks on); a coverage "
                     "cell is (layout, event kind, op, operand classes, fits/overflows/div0); non-trivial = operands non-zero",
                need_ops=["wneg", "wnot", "wbin", "wbit", "wint", "wsh", "weu", "weui", "wsum", "wmeth", "wfrom", "wprog", "ps10", "ps16"]),
    "C10": dict(module="codecm", streams=[ST_CODEC, LT_CODEC], profiles=["release", "checked"], miri=True,
                rule="one event = one (layout, bit pattern) with encode / encoded_size / max_encoded_len / the integer's own encode / decode of "
                     "the little-endian bytes (built by the driver from the raw pattern, not from the library's output) / decode of every "
                     "proper prefix / decode with trailing junk / le,be,ne byte views and their inverses / from_bits(to_bits) / serde_json "
                     "text and round trip for F and Wrapping<F>; the same seeded patterns are used for every Frac of a family (and all 256 "
                     "patterns for 8-bit layouts) so that a Frac-dependent encoding is visible; a coverage cell is (layout, class(pattern)); "
                     "non-trivial = pattern != 0",
                need_ops=["cd"]),
    "C06": dict(exhaustive={"thorough": True}, module="round", streams=[ST_ROUND, LT_ROUND], profiles=["release", "checked"],
                rule="one event = one (layout, value) with all 23 rounding-method outcomes; values are boundary constants, structured "
                     "patterns and integer/half-integer neighbours (k, k+-ulp, k+1/2, k+1/2+-ulp) at both ends of the range; thorough "
                     "enumerates every value of all 8- and 16-bit layouts; a coverage cell is (layout, class(value), fraction class "
                     "int/lo/tie/hi, which of ceil/floor/round/ties-even overflow); non-trivial = value != 0 and fraction != 0",
                need_ops=["round"]),
    "C07": dict(exhaustive={"thorough": True}, module="rem", streams=[ST_REM, LT_REM], profiles=["release", "checked"],
                rule="one event = one (layout, dividend, divisor) with all remainder / Euclidean forms (fixed or integer divisor); divisors "
                     "include 0, +-1 ulp, MIN, the dividend and its negation, and partners solved so the quotient lands within 2 ulp of a "
                     "range bound; thorough enumerates all operand pairs of the 18 eight-bit layouts; a coverage cell is (layout, op, "
                     "class(a), class(b), quotient fits/over+/over-, remainder fits/over); non-trivial = a not in {0, 1.0} and b != 0",
                need_ops=["rem", "rem_int", "rem_r", "rem_int_r"]),
}

ST_TRANS = S("trans", chunks=TRANS, n={"quick": 5000, "thorough": 60000}, shards={"quick": 16, "thorough": 4})
TRANS_RULE = ("one event = one call of a math function on a (source type, destination type, operand) with its Ok/Err/value/panic outcome "
              "and the per-loop iteration counts read from the cfg(substrate_fixed_verif) hook; types: every signed/unsigned layout with "
              ">= 9 integer and >= 23 fractional bits in thorough (131 + 131 types with S = D, 286 pairs with S != D: two random wider destinations per source plus every destination at the reciprocal edge F_S = I_D - 1 +- 1), the named ones plus extremes in quick; "
              "operands: 0, +-ulp, +-1, MIN, MAX, 2^k +- few ulp over the whole exponent range, e, perfect squares +- ulp, sqrt(2)-type "
              "mantissas, reciprocal-limit operands of the destination, exp/pow arguments spread to +-(ln MAX + 3) and dense at the "
              "overflow threshold, simple fractions p/q and reciprocals of perfect squares, limb-structured patterns (both half-width limbs from {0,1,2,2^(h-1),2^(h-1)+-1,2^h-1,2^h-2,random}), angles k*pi/4 +- few ulp for all k with |x| <= 200, signed sums of the first m double-precision arctangents atan(2^-i) and k*f64(pi/4), tan poles +- (1/64 + small), +-200/+-100 exactly, "
              "powi exponents {i32::MIN, MIN+1, ..., -1, 0, 1, ..., i32::MAX} x bases {0, +-1, +-ulp, +-(1+-ulp), +-2, 1/2, MAX, MIN, 1+-2^-k}; ")
TP = {
    "C12": ("a coverage cell is (S>D, function, magnitude class of the operand, outcome ok/err/val/panic/limit); non-trivial = operand not 0/1",
            ["sqrt", "log2", "ln", "exp", "pow", "powi", "sin", "cos", "tan"], {"quick": 40, "thorough": 548}, ["release", "checked"], ["release", "checked"]),
    "C13": ("cells as C12 restricted to sqrt; judged by the exact integer bracket (R-4)^2 <= x*2^2g <= (R+4)^2",
            ["sqrt"], {"quick": 40, "thorough": 548}, ["release"], ["release", "checked"]),
    "C14": ("cells as C12 restricted to log2/ln; reference mpmath at 500 bits",
            ["log2", "ln"], {"quick": 27, "thorough": 275}, ["release"], ["release", "checked"]),
    "C15": ("cells as C12 restricted to exp/pow/powi; reference mpmath at 500 bits, exact rationals for |n| <= 512",
            ["exp", "pow", "powi"], {"quick": 27, "thorough": 275}, ["release"], ["release", "checked"]),
    "C16": ("cells as C12 restricted to sin/cos/tan inside the accuracy domain; reference mpmath at 500 bits",
            ["sin", "cos", "tan"], {"quick": 10, "thorough": 131}, ["release"], ["release", "checked"]),
    "C17": ("cells as C12 without powi; the judged quantity is the sum of the hook's loop counters per call against 4*width+64, "
            "including angles of every magnitude up to MIN/MAX",
            ["sqrt", "log2", "ln", "exp", "pow", "sin", "cos", "tan"], {"quick": 40, "thorough": 548}, ["release"], ["release"]),
}
for _p, (_r, _ops, _nl, _qp, _tp) in TP.items():
    _st = dict(ST_TRANS)
    # the driver only executes the functions the property judges (operand streams are unchanged)
    _st["args"] = ["--fns", ",".join(_ops + (["powi"] if _p == "C12" else []))] if _p != "C12" else []
    _sw = [(f, "i") for f in _ops if f not in ("pow", "powi")] + ([("sqrt", "u")] if "sqrt" in _ops else [])
    # quick: a light release-profile pass over ALL math-function type pairs (the thorough bins) next to the 40 named ones
    _lt = S("trans", chunks={"quick": TRANS_ALL, "thorough": []}, n={"quick": 200, "thorough": 0}, shards={"quick": 2, "thorough": 1},
            only_profiles=["release"])
    _lt["args"] = _st["args"]
    _nl = {"quick": _nl["thorough"], "thorough": _nl["thorough"]}
    PLANS[_p] = dict(module="transm", streams=[_st, _lt], profiles=_tp, quick_profiles=_qp, rule=TRANS_RULE + _r,
                     need_ops=_ops, nlay=_nl, sweeps=_sw)


EXHAUSTIVE_NOTE = {
    "C01": "every operand pair of all 18 eight-bit layouts for mul/div (and their by-reference spellings on a subset)",
    "C02": "every operand (pair) of all 18 eight-bit layouts for neg/abs/add/sub/mul/div/mul_int/div_int",
    "C03": "every value pair of all 324 ordered pairs of eight-bit layouts (21 M comparisons in each operand order)",
    "C04": "every source value of all 324 ordered pairs of eight-bit layouts",
    "C05": "every value of the 8- and 16-bit layouts converted to f32 and f64",
    "C06": "every value of all 8- and 16-bit layouts",
    "C07": "every operand pair of all 18 eight-bit layouts, fixed and integer divisors",
    "C08": "every decimal literal [-]I.F with 1-4 fraction digits and I in {0, largest integer, one beyond} for the 18 eight-bit layouts",
    "C09": "every value of the 18 eight-bit layouts under the full grid 6 traits x 10 flag sets x 6 widths x 10 precisions",
}


def _floor(plan, tier, nlay_expected):
    def floor(M):
        if M["evaluations"] == 0:
            return "no events observed"
        missing = [o for o in plan.get("need_ops", []) if M["ops"].get(o, 0) == 0]
        if missing:
            return "operations never observed: %s" % ",".join(missing)
        if len(M["layouts"]) < int(0.9 * nlay_expected):
            return "only %d of %d layouts / type pairs observed" % (len(M["layouts"]), nlay_expected)
        if len(M["cells"]) < 2:
            return "fewer than 2 non-trivial coverage cells"
        fl = plan.get("floor_extra")
        return fl(M, tier) if fl else None
    return floor


def stream_bins(st, tier):
    return [("%s_%s" % (st["body"], c)) if c else st["body"] for c in st["chunks"][tier]]


def plan(prop, tier, seed):
    if prop in PLANS:
        P = PLANS[prop]
        profiles = P["profiles"] if tier == "thorough" else P.get("quick_profiles", P["profiles"])
        bins = {p: set() for p in profiles}
        for st in P["streams"]:
            for p in profiles:
                if not st.get("only_profiles") or p in st["only_profiles"]:
                    bins[p].update(stream_bins(st, tier))

        def jobs(bin_path):
            js = []
            for prof in profiles:
                for st in P["streams"]:
                    if st.get("only_profiles") and prof not in st["only_profiles"]:
                        continue
                    shards = st["shards"][tier]
                    for b in stream_bins(st, tier):
                        for s in range(shards):
                            gen = None
                            if st.get("gen"):
                                gen = [PY, st["gen"], "--seed", str(seed), "--n", str(st["n"][tier]),
                                       "--chunk", b.split("_", 1)[1], "--shard", "%d/%d" % (s, shards)] + st.get("gen_args", {}).get(tier, [])
                            js.append(dict(kind="pipe", body=st["body"], gen=gen,
                                           drv=[bin_path(prof, b), "--seed", str(seed), "--n", str(st["n"][tier]),
                                                "--shard", "%d/%d" % (s, shards)] + st["args"] + st["args_tier"].get(tier, []),
                                           mon=[PY, MON, P.get("module_by_body", {}).get(st["body"], P["module"]), prop, prof] + P.get("mon_args", []),
                                           timeout=1800 if tier == "quick" else 4 * 3600))
            if P.get("sweeps") and tier == "thorough":
                # exhaustive I9F23 / U9F23 sweeps: every bit pattern is executed, the in-driver f64 screen
                # (at half tolerance) selects the events the exact oracle re-judges
                for (fn, ty) in P["sweeps"]:
                    for s in range(16):
                        js.append(dict(kind="pipe", body="sweep",
                                       drv=[bin_path("fast", "sweep"), "--fn", fn, "--ty", ty, "--seed", str(seed), "--shard", "%d/16" % s],
                                       mon=[PY, MON, P["module"], prop, "release"], timeout=4 * 3600))
            if P.get("miri") and tier == "thorough":
                # supplementary UB interpreter over the one path that crosses a dependency with `unsafe`
                # (SCALE / serde codecs): the same driver under Miri, a few hundred events, same monitor.
                # A Miri abort makes the run INCONCLUSIVE (it is not what the property states).
                js.append(dict(kind="pipe", body="codec", label="miri", cwd=os.path.join(ROOT, "harness"),
                               env={"MIRIFLAGS": "-Zmiri-disable-isolation"},
                               drv=["cargo", "+nightly", "miri", "run", "--target-dir", os.path.join(ROOT, "harness", "target-miri"),
                                    "--bin", "codec_qa", "--", "--seed", str(seed), "--n", "3", "--only", "i16.8,u128.64,i8.0,u64.64,i32.0"],
                               mon=[PY, MON, P["module"], prop, "miri"], timeout=3600))
            if P.get("probes"):
                js.append(dict(kind="probe", body="probes", profile="release", mon=[PY, MON, P["module"], prop, "release"], timeout=1800))
            return js
        has_light = any(st.get("only_profiles") and st["chunks"].get("quick") for st in P["streams"])
        nlay = P.get("nlay", {"quick": 506 if has_light else 106, "thorough": 506})[tier]
        out = dict(P)
        out.update(build={p: set(bins[p]) for p in profiles}, jobs=jobs, floor=_floor(P, tier, nlay), assumptions=ASSUME,
                   body=P["streams"][0]["body"])
        if has_light and tier == "quick":
            out["rule"] = P["rule"] + LIGHT_RULE
        if tier == "thorough" and prop in EXHAUSTIVE_NOTE:
            out["rule"] = P["rule"] + "; EXHAUSTIVE scope of the thorough tier (what exhaustive=true refers to): " + EXHAUSTIVE_NOTE[prop]
        if P.get("sweeps") and tier == "thorough":
            out["build"]["fast"] = {"sweep"}
            out["exhaustive"] = {"thorough": True}
            out["rule"] = P["rule"] + ("; thorough additionally EXECUTES EVERY bit pattern of I9F23 (and U9F23 for sqrt) for %s "
                                       "(sin/cos on |x| <= 200, tan on |x| <= 100): an in-driver f64 screen at half the tolerance, every "
                                       "panic/abort/Err needing justification and a 1-in-2^15 sample are re-judged by the exact oracle; "
                                       "coverage.extra.sweep_patterns_executed counts the executed patterns (exhaustive=true refers to "
                                       "these I9F23/U9F23 scopes only)" % ", ".join(sorted(set(f for f, _ in P["sweeps"]))))
        return out
    import plans_extra
    return plans_extra.plan(prop, tier, seed)


ASSUME = [
    "the Python reference models (exact integers / Fractions / mpmath at 500 bits) are correct; they share no code with the library",
    "rustc/cargo compile the driver and the library faithfully in both profiles; drivers only call the public API and log results",
    "a run decides only the operands it generated (plus the exhaustive small scopes named in the rule)",
]

OP_BODY = {"fi": "convi", "fb": "convi", "fs": "convi", "ff": "xtype", "fl": "flt", "ps": "parse"}


def replay_bin(body, line):
    """which generated bin replays an event line of a body"""
    t = line.split()
    if body == "xtype":
        # search the pair lists
        import re
        src = open(os.path.join(ROOT, "harness", "drv", "src", "layouts.rs")).read()
        ls, ld = t[1], t[2]

        def pat(l):
            return "%s, %d, %d" % ("true" if l[0] == "i" else "false", int(l[1:].split(".")[0]), int(l[1:].split(".")[1]))
        cur = None
        for ln in src.splitlines():
            m = re.match(r"macro_rules! pairs_(x[qt]\d+)", ln)
            if m:
                cur = m.group(1)
            elif ln.startswith("macro_rules!"):
                cur = None
            elif cur and (pat(ls) + ", Fixed") in ln and ln.rstrip().endswith(pat(ld) + ");"):
                return "xtype_" + cur
        raise SystemExit("type pair %s -> %s is in no generated pair list" % (ls, ld))
    if body == "trans":
        import re
        src = open(os.path.join(ROOT, "harness", "drv", "src", "layouts.rs")).read()
        ls, ld = t[1], t[2]

        def pat(l):
            return "%s, %d, %d" % ("true" if l[0] == "i" else "false", int(l[1:].split(".")[0]), int(l[1:].split(".")[1]))
        cur = None
        found = None
        for ln in src.splitlines():
            m = re.match(r"macro_rules! (layouts|pairs)_(tq_s|tq_u|tq|ts\d+|tu\d+|tp\d+) ", ln)
            if m:
                cur = (m.group(1), m.group(2))
            elif ln.startswith("macro_rules!"):
                cur = None
            elif cur and "$m!(" in ln:
                if ls == ld and cur[0] == "layouts" and ln.rstrip().endswith(pat(ls) + ");"):
                    found = cur[1]
                elif ls != ld and cur[0] == "pairs" and (pat(ls) + ", Fixed") in ln and ln.rstrip().endswith(pat(ld) + ");"):
                    found = cur[1]
                if found:
                    break
        if not found:
            raise SystemExit("type pair %s -> %s is in no generated list" % (ls, ld))
        if found.startswith("tq"):
            return "trans_q"
        return "trans_t" + re.sub(r"\D", "", found)
    return "%s_%s" % (body, chunk_of(t[1]))


ALL_OP_BODY = {"round": "round", "fi": "convi", "fb": "convi", "fs": "convi", "ff": "xtype", "fl": "flt", "ps": "parse",
               "fm": "fmt", "fr": "fmt", "cd": "codec"}
for _o in ("neg", "abs", "add", "sub", "mul", "div", "mul_int", "div_int", "add_r", "sub_r", "mul_r", "div_r", "mul_int_r", "div_int_r", "fold",
           "signum", "npow2", "signum_t", "npow2_t", "abs_t"):
    ALL_OP_BODY[_o] = "arith"
for _o in ("rem", "rem_int", "rem_r", "rem_int_r"):
    ALL_OP_BODY[_o] = "rem"
for _o in ("sqrt", "log2", "ln", "exp", "pow", "powi", "sin", "cos", "tan"):
    ALL_OP_BODY[_o] = "trans"
for _o in ("wneg", "wnot", "wbin", "wbit", "wint", "wsh", "weu", "weui", "wsum", "wmeth", "wfrom", "wprog"):
    ALL_OP_BODY[_o] = "wrap"


def replay_plan(prop, hdr, lines):
    if prop in PLANS:
        P = PLANS[prop]
        op = lines[0].split()[0]
        body = hdr.get("body")
        if not body or body == "None":
            body = ALL_OP_BODY.get(op, P["streams"][0]["body"])
        b = replay_bin(body, lines[0])
        profs = ["release", "checked"]

        def job(bin_path, prof, inp):
            return dict(kind="pipe", drv=[bin_path(prof, b), "--stdin"], stdin=inp,
                        mon=[PY, MON, P.get("module_by_body", {}).get(body, P["module"]), prop, prof] + P.get("mon_args", []), timeout=600)
        return dict(build={p: {b} for p in profs}, profiles=profs, job=job)
    import plans_extra
    return plans_extra.replay_plan(prop, hdr, lines)


def setup_build():
    """everything the quick tier needs, both profiles"""
    bins = {"release": set(), "checked": set()}
    for prop, P in PLANS.items():
        for prof in P.get("quick_profiles", P["profiles"]):
            for st in P["streams"]:
                if not st.get("only_profiles") or prof in st["only_profiles"]:
                    bins[prof].update(stream_bins(st, "quick"))
    try:
        import plans_extra
        plans_extra.setup_build(bins)
    except ImportError:
        pass
    return bins
