"""Per-property run plans: which driver binaries (and build profiles) produce
the workload, which monitor judges it, the event budgets per tier, and the
coverage floor below which a run is INCONCLUSIVE rather than "held"."""
import os

ROOT = os.path.dirname(os.path.dirname(os.path.abspath(__file__)))
MON = os.path.join(ROOT, "monitors", "mon.py")
PY = "python3-vt"

QUICK_CHUNKS = ["qa", "qb", "qc", "qd"]
ALL_CHUNKS = ["is", "us", "i32", "u32", "i64a", "i64b", "u64a", "u64b",
              "i128a", "i128b", "i128c", "i128d", "u128a", "u128b", "u128c", "u128d"]
TRANS_Q = ["q"]
TRANS_ALL = ["t%d" % i for i in range(8)]

# ---------------------------------------------------------------- layout helpers


def quick_fracs(w):
    s = {0, 1, 2, w // 4, w // 2 - 1, w // 2, w // 2 + 1, 3 * w // 4, w - 2, w - 1, w}
    if w == 8:
        s = set(range(9))
    return sorted(s)


def chunk_of(layname, prefer_quick=True):
    """which generated bin chunk contains a layout"""
    signed = layname[0] == "i"
    n, f = map(int, layname[1:].split("."))
    p = "i" if signed else "u"
    if prefer_quick and f in quick_fracs(n):
        if n <= 32:
            return "qa" if signed else "qb"
        return "qc" if signed else "qd"
    if n <= 16:
        return p + "s"
    if n == 32:
        return p + "32"
    if n == 64:
        return p + ("64a" if f <= 32 else "64b")
    return p + "128" + ("a" if f <= 32 else "b" if f <= 64 else "c" if f <= 96 else "d")


# ---------------------------------------------------------------- plan table
# n = events-per-layout knob handed to the driver (`--n`); shards = processes per bin

LAYOUT_PLANS = {
    "C06": dict(body="round", module="round", profiles=["release", "checked"],
                n={"quick": 6000, "thorough": 40000},
                drv_args_tier={"thorough": ["--exhaustive", "1"]},
                rule="one event = one (layout, value) with all 23 rounding-method outcomes; values are boundary constants, structured "
                     "patterns and integer/half-integer neighbours (k, k+-ulp, k+1/2, k+1/2+-ulp) at both ends of the range; thorough "
                     "enumerates every value of all 8- and 16-bit layouts; a coverage cell is (layout, class(value), fraction class "
                     "int/lo/tie/hi, which of ceil/floor/round/ties-even overflow); non-trivial = value != 0 and fraction != 0",
                need_ops=["round"]),
    "C07": dict(body="rem", module="rem", profiles=["release", "checked"],
                n={"quick": 4000, "thorough": 30000},
                drv_args_tier={"thorough": ["--exhaustive", "1"]},
                rule="one event = one (layout, dividend, divisor) with all remainder / Euclidean forms (fixed or integer divisor); divisors "
                     "include 0, +-1 ulp, MIN, the dividend and its negation, and partners solved so the quotient lands within 2 ulp of a "
                     "range bound; thorough enumerates all operand pairs of the 18 eight-bit layouts; a coverage cell is (layout, op, "
                     "class(a), class(b), quotient fits/over+/over-, remainder fits/over); non-trivial = a not in {0, 1.0} and b != 0",
                need_ops=["rem", "rem_int", "rem_r", "rem_int_r"]),
    "C01": dict(body="arith", module="arith", profiles=["release", "checked"],
                n={"quick": 1500, "thorough": 12000},
                rule="one event = one (layout, op, operand pair) with all API forms of the op; operands from boundary constants, "
                     "log-uniform magnitudes, sparse/dense/limb-structured patterns and pairs solved so the exact result lands "
                     "within 2 ulp of a range bound; a coverage cell is (layout, op, class(a), class(b), fits/over+/over-/div0); "
                     "distinct_nontrivial counts distinct cells whose operands are neither 0 nor 1.0 (an undercount of distinct inputs)",
                need_ops=["mul", "div", "mul_r", "div_r"]),
    "C02": dict(body="arith", module="arith", profiles=["release", "checked"],
                n={"quick": 1500, "thorough": 12000},
                rule="one event = one (layout, op, operands) with the checked/saturating/wrapping/overflowing/plain forms of the op; "
                     "operand synthesis as for C01; a coverage cell is (layout, op, class(a), class(b), fits/over+/over-/div0); "
                     "distinct_nontrivial counts distinct cells whose operands are neither 0 nor 1.0",
                need_ops=["neg", "abs", "add", "sub", "mul", "div", "mul_int", "div_int"]),
}


def _floor_layout(plan, tier, nlay_expected):
    def floor(M):
        if M["evaluations"] == 0:
            return "no events observed"
        missing = [o for o in plan.get("need_ops", []) if M["ops"].get(o, 0) == 0]
        if missing:
            return "operations never observed: %s" % ",".join(missing)
        if len(M["layouts"]) < nlay_expected:
            return "only %d of %d layouts observed" % (len(M["layouts"]), nlay_expected)
        if len(M["cells"]) < 2:
            return "fewer than 2 non-trivial coverage cells"
        fl = plan.get("floor_extra")
        return fl(M, tier) if fl else None
    return floor


def plan(prop, tier, seed):
    if prop in LAYOUT_PLANS:
        P = LAYOUT_PLANS[prop]
        chunks = QUICK_CHUNKS if tier == "quick" else ALL_CHUNKS
        bins = ["%s_%s" % (P["body"], c) for c in chunks]
        shards = 4 if tier == "quick" else P.get("thorough_shards", 2)
        n = P["n"][tier]
        profiles = P["profiles"] if tier == "thorough" else P.get("quick_profiles", P["profiles"])

        def jobs(bin_path):
            js = []
            for prof in profiles:
                for b in bins:
                    for s in range(shards):
                        js.append(dict(kind="pipe", body=P["body"],
                                       drv=[bin_path(prof, b), "--seed", str(seed), "--n", str(n),
                                            "--shard", "%d/%d" % (s, shards)] + P.get("drv_args", [])
                                       + P.get("drv_args_tier", {}).get(tier, []),
                                       mon=[PY, MON, P["module"], prop, prof] + P.get("mon_args", []),
                                       timeout=P.get("timeout", {}).get(tier, 1800 if tier == "quick" else 7200)))
            return js
        nlay = 106 if tier == "quick" else 506
        out = dict(P)
        out.update(build={p: set(bins) for p in profiles}, jobs=jobs,
                   floor=_floor_layout(P, tier, P.get("nlay", {}).get(tier, nlay)),
                   assumptions=ASSUME)
        return out
    import plans_extra
    return plans_extra.plan(prop, tier, seed)


ASSUME = [
    "the Python reference models (exact integers / Fractions / mpmath at 500 bits) are correct; they share no code with the library",
    "rustc/cargo compile the driver and the library faithfully in both profiles; drivers only call the public API and log results",
    "a run decides only the operands it generated (plus the exhaustive small scopes named in the rule)",
]


def replay_plan(prop, hdr, lines):
    if prop in LAYOUT_PLANS:
        P = LAYOUT_PLANS[prop]
        body = hdr.get("body", P["body"])
        layname = lines[0].split()[1]
        b = "%s_%s" % (body, chunk_of(layname))
        profs = ["release", "checked"]

        def job(bin_path, prof, inp):
            return dict(kind="pipe", drv=[bin_path(prof, b), "--stdin"], stdin=inp,
                        mon=[PY, MON, P["module"], prop, prof] + P.get("mon_args", []), timeout=600)
        return dict(build={p: {b} for p in profs}, profiles=profs, job=job)
    import plans_extra
    return plans_extra.replay_plan(prop, hdr, lines)


def setup_build():
    """everything the quick tier needs, both profiles"""
    bins = {"release": set(), "checked": set()}
    for prop, P in LAYOUT_PLANS.items():
        for prof in P.get("quick_profiles", P["profiles"]):
            for c in QUICK_CHUNKS:
                bins[prof].add("%s_%s" % (P["body"], c))
    try:
        import plans_extra
        plans_extra.setup_build(bins)
    except ImportError:
        pass
    return bins
