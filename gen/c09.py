#!/usr/bin/env python3
"""Directed values for the Display round-trip check (C09): `fr <layout> <bits>` lines for the fmt driver's --stdin mode.

The default Display output of a 128-bit value with >= 90 fractional bits has more than 27 fractional digits, so
parsing it back goes through the two-limb decimal path (hi*10^27 + lo in 256 bits).  Values are constructed so that
their printed digits make that sum carry out of the low 128-bit limb (p ~ 2^-39 for random values; seeded change
C09-E), plus values whose expansion has long runs of 9s / 0s around digit 27 and around the last printed digit.
Only raw bit patterns are produced; the monitor computes what must come out.
"""
import os
import random
import sys

HERE = os.path.dirname(os.path.abspath(__file__))
sys.path.insert(0, os.path.join(HERE, "..", "harness"))
import gen_layouts  # noqa: E402


def main():
    a = dict(zip(sys.argv[1::2], sys.argv[2::2]))
    seed = int(a.get("--seed", "1"))
    count = int(a.get("--n", "100"))
    chunk = a["--chunk"]
    sh, nsh = map(int, a.get("--shard", "0/1").split("/"))
    lists = dict(gen_layouts.quick_split())
    lists.update(gen_layouts.chunks())
    lays = lists[chunk]
    w = sys.stdout.write
    inv = pow(5 ** 27, -1, 1 << 101)
    for idx, (signed, n, f) in enumerate(lays):
        if idx % nsh != sh:
            continue
        if n != 128 or f < 66:
            continue
        name = "%s%d.%d" % ("i" if signed else "u", n, f)
        rnd = random.Random("%d/%s/c09" % (seed, name))
        mask = (1 << n) - 1
        hi_raw = (1 << (n - 1)) - 1 if signed else mask
        made = 0
        tries = 0
        while made < max(4, count // 20) and tries < 400000:
            tries += 1
            t = rnd.randrange(1, 5 ** 27)
            h27 = (-t * inv) % (1 << 101)
            if h27 >= 10 ** 27 or h27 < 10 ** 26:
                continue
            r = (h27 * 10 ** 27) % (1 << 128)
            thr = (1 << 128) - r
            if thr >= 10 ** 27:
                continue
            for l27 in (rnd.randrange(thr, 10 ** 27), min(10 ** 27 - 1, thr + rnd.randrange(1, 10 ** 16)), max(0, thr - rnd.randrange(1, 10 ** 16))):
                num = h27 * 10 ** 27 + l27           # value = num / 10^54
                bits = (num << f) // 10 ** 54 + rnd.randrange(0, 2)
                ip = rnd.choice((0, 0, 1)) << f if f < n - 1 else 0
                v = (ip + bits)
                if v <= hi_raw:
                    w("fr %s %x\n" % (name, v))
                    if signed:
                        w("fr %s %x\n" % (name, (-v) & mask))
            made += 1
        # long runs of 9s / 0s: k/10^m - tiny and + tiny
        for _ in range(count):
            m = rnd.choice((1, 2, 5, 20, 26, 27, 28, 30, 38))
            k = rnd.randrange(1, 10 ** min(m, 6)) * 10 ** (m - min(m, 6))
            v = ((k << f) // 10 ** m + rnd.randrange(-2, 3)) & mask
            if v <= hi_raw:
                w("fr %s %x\n" % (name, v))


if __name__ == "__main__":
    main()
