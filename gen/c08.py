#!/usr/bin/env python3
"""Literal generator for C08 (parsing).  Writes `ps <layout> <radix-hex> <hex-escaped literal>`
lines for the layouts of one driver bin chunk / shard, deterministically from the seed.

Literals are built from EXACT radix expansions of grid points and rounding ties
of the target layout (DESIGN.md 3, class 6): the expansion itself, proper
prefixes, the expansion with 0...0d appended (crossing the fast-path digit
budgets), the predecessor ...(d-1)99..9, single-digit perturbations, leading /
trailing zeros, signs, empty integer or fraction part, upper/lower hex,
1000-digit integers, range ends +- half an ulp, and a malformed corpus.
The generator does not know the expected result; the monitor computes it.
"""
import os
import random
import sys

HERE = os.path.dirname(os.path.abspath(__file__))
sys.path.insert(0, os.path.join(HERE, "..", "harness"))
import gen_layouts  # noqa: E402

DIG = "0123456789abcdef"


def expand(num, den_log2, radix):
    """exact expansion of num / 2^den_log2 (num >= 0) in the radix: (int digits, frac digits)"""
    ip = num >> den_log2
    fp = num - (ip << den_log2)
    if ip == 0:
        si = "0"
    else:
        si = ""
        while ip:
            si = DIG[ip % radix] + si
            ip //= radix
    sf = ""
    # radix 10: exactly den_log2 digits; power-of-two radices: ceil(den_log2 / k)
    while fp:
        fp *= radix
        d = fp >> den_log2
        sf += DIG[d]
        fp -= d << den_log2
    return si, sf


MALFORMED = ["", "+", "-", ".", "+.", "-.", "1..2", "1.2.3", "..", "1-2", "--1", "+-1", "-+1", "1+", "1-", " 1", "1 ", "1 2",
             "1e5", "1E5", "1e-5", "1_000", "0x10", "0b1", "0o7", "1,5", "\t1", "1\n", "NaN", "inf", "-inf", "abc", "1.5f",
             "１", "٣", "−1", "1 ", "1.٥", "+1.5.", ".+5", "5.-1", "1.+5", "0.1.", "1e", "e1", "0..0", "-", "+0+"]
WRONG_RADIX = {2: ["2", "1.2", "10.12", "a", "9"], 8: ["8", "7.8", "9", "f"], 10: ["a", "1.a", "f", "1f"], 16: ["g", "1.g", "0xg", "z"]}


def lits_for(rnd, signed, n, f, radix, count):
    """yield literals for one (layout, radix)"""
    lo = -(1 << (n - 1)) if signed else 0
    hi = (1 << (n - 1)) - 1 if signed else (1 << n) - 1
    out = []

    def emit(neg, si, sf, raw=None):
        s = ("-" if neg else "") + si + ("." + sf if sf is not None else "")
        out.append(s)

    def variants(neg, si, sf):
        """hostile rewrites of one exact expansion"""
        emit(neg, si, sf)
        k = rnd.randrange(12)
        if k == 0 and sf:
            # proper prefixes
            for cut in {1, 2, rnd.randrange(1, len(sf) + 1), len(sf) // 2 + 1}:
                if cut <= len(sf):
                    emit(neg, si, sf[:len(sf) - cut])
        elif k == 1:
            # 0...0d appended, crossing the fast-path digit budgets
            for z in (0, 1, 2, 3, 6, 13, 27, 40, 54, 80, rnd.randrange(1, 90)):
                emit(neg, si, (sf or "") + "0" * z + DIG[rnd.randrange(1, radix)])
        elif k == 2 and sf:
            # predecessor: last non-zero digit - 1 followed by (radix-1) digits
            last = DIG.index(sf[-1])
            if last > 0:
                for rep in (1, 3, 13, 30, 60, rnd.randrange(1, 100)):
                    emit(neg, si, sf[:-1] + DIG[last - 1] + DIG[radix - 1] * rep)
        elif k == 3 and sf:
            # single-digit perturbation
            for _ in range(3):
                i = rnd.randrange(len(sf))
                d = DIG[(DIG.index(sf[i]) + rnd.choice((1, radix - 1))) % radix]
                emit(neg, si, sf[:i] + d + sf[i + 1:])
        elif k == 4:
            emit(neg, "0" * rnd.randrange(1, 40) + si, (sf or "") + "0" * rnd.randrange(0, 40))
            out.append(("+" if not neg else "-") + si + ("." + sf if sf else ""))
            out.append(("-" if neg else "") + si + ".")          # empty fraction
            if si == "0" and sf:
                out.append(("-" if neg else "") + "." + sf)       # empty integer part
        elif k == 5 and radix == 16:
            emit(neg, si.upper(), (sf or "").upper())
            mixed = "".join(c.upper() if rnd.random() < 0.5 else c for c in (sf or ""))
            emit(neg, si, mixed)
        elif k == 6 and sf:
            # tie + epsilon far out, tie - epsilon far out
            z = rnd.choice((5, 20, 28, 39, 55, 100, 200))
            emit(neg, si, sf + "0" * z + "1")
            last = DIG.index(sf[-1])
            if last > 0:
                emit(neg, si, sf[:-1] + DIG[last - 1] + DIG[radix - 1] * z + DIG[radix - 1])

    # systematic block (decimal only): the ties adjacent to every 1- and 2-digit decimal fraction j/10^m,
    # i.e. tie points whose own expansion starts just below / at / above a short decimal - where the
    # digit-by-digit comparison with the tie point is about to carry.  Each in exact / hair-below (two
    # spellings) / hair-above form.
    if radix == 10 and f >= 1:
        for m in (1, 2):
            p10 = 10 ** m
            for j in range(1, p10):
                rf = (j << f) // p10
                for off in (-1, 0, 1):
                    R = rf + off
                    if R < 0 or R >= (1 << f):
                        continue
                    si, sf = expand(2 * R + 1, f + 1, radix)
                    emit(False, si, sf)
                    last = DIG.index(sf[-1])
                    if last > 0:
                        emit(False, si, sf[:-1] + DIG[last - 1] + "9" * 40)
                    if len(sf) > 1:
                        emit(False, si, sf[:-1])
                    emit(False, si, sf + "0" * 25 + "1")
    # directed block (decimal, 128-bit words only): the decimal fraction path accumulates the digits in two 27-digit
    # limbs and combines them as hi*10^27 + lo in 256 bits.  A carry out of the low 128-bit limb of that sum needs
    # (hi*10^27 mod 2^128) + lo >= 2^128, which random / tie-derived literals meet with p ~ 2^-39 (the reach audit
    # showed the carry branch unexecuted; three independent seeded changes C08-E, C09-E, C11-E sit exactly there).
    # hi is solved from hi*5^27 = -t (mod 2^101) with small t; lo is placed just below / at / above the threshold.
    if radix == 10 and n == 128 and f >= 65:
        inv = pow(5 ** 27, -1, 1 << 101)
        made = 0
        tries = 0
        while made < 6 and tries < 200000:
            tries += 1
            t = rnd.randrange(1, 5 ** 27)
            h27 = (-t * inv) % (1 << 101)
            if h27 >= 10 ** 27 or h27 < 10 ** 26:
                continue
            r = (h27 * 10 ** 27) % (1 << 128)
            thr = (1 << 128) - r          # lo >= thr carries
            if thr >= 10 ** 27:
                continue
            for l27 in (thr - 1, thr, thr + 1, rnd.randrange(thr, 10 ** 27), thr - rnd.randrange(1, max(2, thr))):
                if 0 <= l27 < 10 ** 27:
                    frac = "%027d%027d" % (h27, l27)
                    ip = rnd.choice(("0", "", "1")) if f < 128 else rnd.choice(("0", ""))
                    emit(rnd.random() < 0.3 and signed, ip, frac)
                    emit(False, ip, frac.rstrip("0") + rnd.choice(("", "5", "0001")))
            made += 1
    for _ in range(count):
        c = rnd.randrange(100)
        # pick a raw grid value R
        sel = rnd.randrange(10)
        if sel == 0:
            R = hi - rnd.randrange(0, 3)
        elif sel == 1:
            R = lo + rnd.randrange(0, 3)
        elif sel == 2:
            R = rnd.randrange(-3, 4)
        elif sel == 3:
            R = (1 << f) + rnd.randrange(-2, 3) if f < n else rnd.randrange(0, 4)
        elif sel == 4:
            k = rnd.randrange(n)
            R = (1 << k) + rnd.randrange(-1, 2)
        elif sel == 5:
            R = rnd.randrange(lo, hi + 1)
        else:
            ln = rnd.randrange(1, n + 1)
            R = rnd.getrandbits(ln)
            if signed and rnd.random() < 0.5:
                R = -R
        if not signed and R < 0 and rnd.random() < 0.7:
            R = -R
        if c < 45:
            # the tie between R and R+1: (2R+1) / 2^(f+1)
            num = 2 * R + 1
            si, sf = expand(abs(num), f + 1, radix)
            variants(num < 0, si, sf)
        elif c < 65:
            # the grid point itself
            si, sf = expand(abs(R), f, radix)
            variants(R < 0, si, sf or None)
        elif c < 75:
            # quarter points (R + 1/4, R + 3/4): clearly one side of the tie
            num = 4 * R + rnd.choice((1, 3))
            si, sf = expand(abs(num), f + 2, radix)
            variants(num < 0, si, sf)
        elif c < 83:
            # range ends: MAX + 1/2 ulp (tie, rounds to even = overflow), MIN - 1/2 ulp, +-1 digit
            end = rnd.choice((hi, lo, hi + 1, lo - 1))
            num = 2 * end + rnd.choice((1, -1))
            si, sf = expand(abs(num), f + 1, radix)
            variants(num < 0, si, sf)
        elif c < 85:
            # integer part already beyond the range AND a fraction that rounds up / carries into it
            base = rnd.choice((hi + 1, hi + 2, (1 << n), (1 << n) + 1, lo - 1, lo - 2, -(1 << n) - 1))
            intpart = abs(base) >> f if f < n else 0
            intpart += rnd.randrange(0, 3)
            si, _ = expand(intpart, 0, radix)
            frac = rnd.choice((DIG[radix - 1] * rnd.randrange(1, 12), DIG[radix - 1] * rnd.choice((20, 27, 39, 40, 54, 55, 80)),
                               DIG[radix // 2] + DIG[rnd.randrange(1, radix)],
                               DIG[radix // 2], DIG[radix - 1] + DIG[radix // 2] * 3, DIG[radix // 2] + "0" * 5 + "1"))
            emit(base < 0, si, frac)
        elif c < 86:
            nn = rnd.choice((3, 8, 19, 20, 27, 28, 39, 40, 54, 55, 80, 130))
            ipv = rnd.choice((0, 0, 1, (hi >> f) if f < n else 0, rnd.randrange(0, 4)))
            si, _ = expand(ipv, 0, radix)
            emit(rnd.random() < 0.3, si, DIG[radix - 1] * nn + rnd.choice(("", DIG[rnd.randrange(radix)])))
        elif c < 88:
            # big integers: 2^n, 2^n +- 1, 1000-digit numbers, many leading zeros
            which = rnd.randrange(4)
            if which == 0:
                v = (1 << (n - f if n > f else 0)) + rnd.randrange(-1, 2)
                si, _ = expand(abs(v), 0, radix)
                emit(v < 0 or rnd.random() < 0.3, si, None)
            elif which == 1:
                si = "".join(DIG[rnd.randrange(radix)] for _ in range(rnd.choice((50, 300, 1000))))
                emit(rnd.random() < 0.5, si, rnd.choice((None, "", "5", "0" * 30)))
            elif which == 2:
                emit(rnd.random() < 0.5, "0" * rnd.choice((1, 64, 500)), "0" * rnd.choice((0, 1, 200)))
            else:
                # long fraction digits
                sf = "".join(DIG[rnd.randrange(radix)] for _ in range(rnd.choice((40, 130, 300))))
                emit(rnd.random() < 0.5, rnd.choice(("0", "", "1")), sf)
        elif c < 94:
            out.append(rnd.choice(MALFORMED))
            out.append(rnd.choice(WRONG_RADIX[radix]))
        else:
            # random short literal from the alphabet, valid or not
            alpha = DIG[:radix] * 3 + ".+-" + " e_"
            out.append("".join(rnd.choice(alpha) for _ in range(rnd.randrange(1, 9))))
    # mutation class (drawn after everything else, so the literals above do not move): one or two byte-level edits of a literal
    # generated above (delete / duplicate / replace / insert from a hostile alphabet / swap neighbours / move the sign or the
    # point), valid or not -- the "almost a number" strings of realistic length around every structured literal
    hostile = DIG[:radix] + DIG[:16].upper() + "..++--  _e\t\u0660\uff11\u2212\u00a0,'xXg"
    for _ in range(max(2, count // 6)):
        base = list(rnd.choice(out) if out else "0")
        for _ in range(rnd.choice((1, 1, 2))):
            k = rnd.randrange(7)
            pos = rnd.randrange(len(base) + 1)
            if k == 0 and base:
                del base[min(pos, len(base) - 1)]
            elif k == 1 and base:
                q = min(pos, len(base) - 1)
                base.insert(q, base[q])
            elif k == 2 and base:
                base[min(pos, len(base) - 1)] = rnd.choice(hostile)
            elif k == 3:
                base.insert(pos, rnd.choice(hostile))
            elif k == 4 and len(base) > 1:
                q = min(pos, len(base) - 2)
                base[q], base[q + 1] = base[q + 1], base[q]
            elif k == 5:
                base.insert(pos, rnd.choice("+-."))
            else:
                base = base[:pos]  # truncate
        if len(base) < 400:
            out.append("".join(base))
    return out


def main():
    a = dict(zip(sys.argv[1::2], sys.argv[2::2]))
    seed = int(a.get("--seed", "1"))
    count = int(a.get("--n", "100"))
    chunk = a["--chunk"]
    sh, nsh = map(int, a.get("--shard", "0/1").split("/"))
    lists = dict(gen_layouts.quick_split())
    lists.update(gen_layouts.chunks())
    lays = lists[chunk]
    w = sys.stdout.write
    exhaustive = a.get("--exhaustive", "0") == "1"
    for idx, (signed, n, f) in enumerate(lays):
        if idx % nsh != sh:
            continue
        name = "%s%d.%d" % ("i" if signed else "u", n, f)
        if exhaustive and n == 8:
            # every decimal literal [-]I.F with F of 1..4 digits and I at 0 / the largest integer / one beyond
            imax = ((1 << (n - 1)) - 1 if signed else (1 << n) - 1) >> f
            for ip in sorted({0, imax, imax + 1}):
                for sign in ("", "-"):
                    for nd in (1, 2, 3, 4):
                        for v in range(10 ** nd):
                            lit = "%s%d.%0*d" % (sign, ip, nd, v)
                            w("ps %s a %s\n" % (name, lit.encode().hex()))
        for radix in (10, 2, 8, 16):
            rnd = random.Random("%d/%s/%d" % (seed, name, radix))
            cnt = count if radix == 10 else max(1, count // 3)
            for lit in lits_for(rnd, signed, n, f, radix, cnt):
                w("ps %s %x %s\n" % (name, radix, lit.encode("utf-8").hex() or "-"))


if __name__ == "__main__":
    main()
