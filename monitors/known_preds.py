"""Coded predicates for known_findings.json (see known.py).

A predicate receives (prop, sig, line, detail, profile) for an event the exact
oracle has rejected and answers: is this *exactly* the listed finding?  It must
be narrow: anything it does not recognise stays a VIOLATION.
"""
from known import predicate
from common import lay, trunc_div


# --------------------------------------------------------------------------
# D10: the div_euclid family of the pinned tree derives every form from the
# (overflowing) *plain* quotient: q0 = round_to_zero(a / b), then q0 -+ 1 when
# the truncated remainder is negative, with from_num(+-1) as the increment.
# That is what the crate's own doc-tests describe for the wrapped value, and
# it deviates from "exact Euclidean quotient, overflow iff it does not fit"
# (C07) whenever the plain quotient overflows or +-1 is not representable.
# The model below reproduces that derivation bit for bit; an event is
# attributed to D10 only if the observed token equals the model's prediction.

def _rtz(L, X):
    """round_to_zero on a raw (in-range) value"""
    f = L.f
    a = abs(X)
    r = (a >> f) << f
    return -r if X < 0 else r


def _legacy_div_euclid(L, A, B, isint, profile):
    """returns dict form-name -> predicted token (or None = no prediction)"""
    f = L.f
    Braw = (B << f) if isint else B
    if Braw == 0:
        return {}
    if isint:
        tq = trunc_div(A, B)           # raw bits divided by the integer
    else:
        tq = trunc_div(A << f, B)
    o1 = not L.fits(tq)
    q0 = _rtz(L, L.val(tq & L.mask))
    t = A - Braw * trunc_div(A, Braw)  # truncated remainder (always fits)
    neg = t < 0
    pos_rhs = B > 0
    inc = -1 if pos_rhs else 1
    inc_raw = inc << f
    inc_ok = L.fits(inc_raw)
    sfx = "_int" if isint else ""
    out = {}
    # overflowing / wrapping
    if not neg:
        ov = (q0, o1)
    elif not inc_ok:
        ov = (q0, True)
    else:
        s = q0 + inc_raw
        ov = (s, o1 or not L.fits(s))
    out["overflowing_div_euclid" + sfx] = "O:%x:%d" % (ov[0] & L.mask, 1 if ov[1] else 0)
    out["wrapping_div_euclid" + sfx] = "V:%x" % (ov[0] & L.mask)
    # checked
    if o1:
        ck = None
    elif not neg:
        ck = q0
    elif not inc_ok:
        ck = None
    else:
        s = q0 + inc_raw
        ck = s if L.fits(s) else None
    out["checked_div_euclid" + sfx] = "N" if ck is None else "S:%x" % (ck & L.mask)
    if not isint:
        if ck is None:
            sat = L.hi if ((A > 0) == (B > 0)) else L.lo
        else:
            sat = ck
        out["saturating_div_euclid"] = "V:%x" % (sat & L.mask)
    # plain: release wraps everything (from_num(1) wraps too); with checks on any
    # internal overflow panics
    if isint and A == L.lo and B == -1:
        plain = "P"                     # primitive MIN / -1 panics in both profiles
    else:
        one_raw = L.val((1 << f) & L.mask)   # wrapping from_num(1)
        anyov = o1
        if neg:
            anyov = anyov or not L.fits(1 << f)
            s = q0 - one_raw if pos_rhs else q0 + one_raw
            anyov = anyov or not L.fits(s)
        else:
            s = q0
        # round_to_zero itself adds INT_LSB: can overflow for q0 near MAX? it operates on in-range
        plain = "P" if (anyov and profile == "checked") else "V:%x" % (s & L.mask)
    out["div_euclid" + sfx] = plain
    return out


@predicate("div_euclid_family_derived_from_plain_quotient")
def _d10(prop, sig, line, detail, profile):
    if prop not in ("C07", "C18", "C11"):
        return False
    toks = line.split()
    op = toks[0]
    if op not in ("rem", "rem_int", "weu", "weui"):
        return False
    parts = sig.split(":")
    if len(parts) < 2:
        return False
    name = parts[1]
    if "div_euclid" not in name:
        return False
    L = lay(toks[1])
    if not L.signed:
        return False
    outs = toks[5:]
    if op in ("weu", "weui"):
        # Wrapping::div_euclid / div_euclid_int forward to the wrapping forms
        if name not in ("wrapping_div_euclid", "wrapping_div_euclid_int"):
            return False
        obs = outs[0]
    else:
        import rem as remmod
        forms = remmod.FORMS[op]
        idx = [i for i, fm in enumerate(forms) if fm[0] == name]
        if not idx:
            return False
        obs = outs[idx[0]]
    A = L.val(int(toks[2], 16))
    B = L.val(int(toks[3], 16))
    pred = _legacy_div_euclid(L, A, B, op in ("rem_int", "weui"), profile).get(name)
    if pred is None:
        return False
    if pred == "P":
        return obs[0] == "P"
    return obs == pred


# --------------------------------------------------------------------------
# D16: pow(x, y) = exp(y * ln x).  ln carries an absolute error of up to 8 ulp
# (+2^-23 relative), which the exponentiation turns into a factor e^(+-eps) with
# eps = |y ln x| 2^-22 + 16 |y| 2^-F.  C15 states the linearised bound
# (relative error <= eps), which is a faithful propagation only while eps is
# small.  For eps >= 1 (|y| >= 2^F/16, i.e. astronomically large exponents) the
# pinned algorithm exceeds the linearised bound, e.g. pow(1 - ulp, 2^60) = 1.0
# (ln rounds to 0) where the true power is ~0.  The predicate accepts exactly
# the results that stay inside the NON-linearised band of the same error model.

@predicate("pow_exponent_error_not_small")
def _d16(prop, sig, line, detail, profile):
    if prop != "C15" or ":pow:inaccurate:" not in (":" + sig):
        return False
    import mpmath
    from mpmath import mpf
    mpmath.mp.prec = 500
    toks = line.split()
    if toks[0] != "pow":
        return False
    S = lay(toks[1])
    D = lay(toks[2])
    X = S.val(int(toks[3], 16))
    Y = S.val(int(toks[4], 16))
    out = toks[6]
    if out[0] != "K" or X <= 0:
        return False
    R = D.val(int(out[2:], 16))
    two = mpf(2)
    xv = mpf(X) / (1 << S.f)
    yv = mpf(Y) / (1 << S.f)
    rv = mpf(R) / (1 << D.f)
    eps = abs(yv * mpmath.log(xv)) * two ** -22 + 16 * abs(yv) * two ** -D.f
    if eps < 1:
        return False
    true = mpmath.power(xv, yv)
    slack = 64 * two ** -D.f
    if eps > 100000:
        lo, hi = mpf(0), mpf("inf")
    else:
        lo = true * mpmath.exp(-eps) * (1 - two ** -18) - slack
        hi = true * mpmath.exp(eps) * (1 + two ** -18) + slack
    return lo <= rv <= hi
