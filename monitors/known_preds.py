"""Coded predicates for known_findings.json (see known.py)."""
from known import predicate  # noqa: F401
