"""C05 monitor: float <-> fixed conversions against exact-rational rounding.

  fl L w a fbits => F::from_num(f) checked_ saturating_ wrapping_ overflowing_from_num
                    x.to_num::<fw>() checked_ saturating_ wrapping_ overflowing_to_num  lossy_from
                    C:fwd C:rev      (comparisons: C03)
  zl L w a fbits => the az cast traits (crate feature "az", src/cast.rs), float -> F: cast checked_cast saturating_cast
                    wrapping_cast overflowing_cast static_cast; F -> float: the same six
"""
from fractions import Fraction
from common import Stats, lay, opclass, panic_text
from floats import decode_float, encode_float, float_class

FORM5 = ("from_num", "checked_from_num", "saturating_from_num", "wrapping_from_num", "overflowing_from_num")
AZ_FROM = ("az_cast", "az_checked_cast", "az_saturating_cast", "az_wrapping_cast", "az_overflowing_cast")
AZ_TO = ("az_to_cast", "az_to_checked_cast", "az_to_saturating_cast", "az_to_wrapping_cast", "az_to_overflowing_cast", "az_to_static_cast")
TO6 = ("to_num", "checked_to_num", "saturating_to_num", "wrapping_to_num", "overflowing_to_num", "lossy_from")


def round_half_even(fr):
    """Fraction -> nearest integer, ties to even"""
    n, d = fr.numerator, fr.denominator
    q, r = divmod(n, d)
    if 2 * r > d or (2 * r == d and (q & 1)):
        q += 1
    return q


class Mon(object):
    def __init__(self, prop, profile):
        self.prop = prop
        self.profile = profile
        self.st = Stats(prop, profile)

    def event(self, line, toks):
        st = self.st
        if toks[0] == "fxf":
            # fixed -> float through the From / LossyFrom trait spellings (impls exist for lossless pairs only; generated list)
            S = lay(toks[2])
            w = int(toks[3])
            a = int(toks[4], 16)
            A = S.val(a)
            e = "V:%x" % encode_float(w, A, S.f)
            for name, t in (("from", toks[6]), ("lossy_from_trait", toks[7])):
                st.checks += 1
                if t != e:
                    st.violation("C05:%s:%s:%s->f%d" % (name, "panic" if t[0] == "P" else "wrong", S.family(), w), line,
                                 "got %s expected %s (value bits %d / 2^%d)" % (panic_text(t) if t[0] == "P" else t, e, A, S.f))
            st.cover(S.name, "fxf%d" % w, (opclass(S, a),), a != 0, line)
            return
        if toks[0] not in ("fl", "zl"):
            return
        az = toks[0] == "zl"
        FORM5 = AZ_FROM if az else globals()["FORM5"]
        TO6 = AZ_TO if az else globals()["TO6"]
        L = lay(toks[1])
        w = int(toks[2])
        a = int(toks[3], 16)
        fbits = int(toks[4], 16)
        outs = toks[6:]
        kind, val = decode_float(w, fbits)
        fam = "%s<-f%d" % (L.family(), w)
        fc = float_class(w, fbits)
        # ---- float -> fixed
        if kind == "fin":
            R = round_half_even(val * (1 << L.f))
            fits = L.fits(R)
            wv = "%x" % (R & L.mask)
            exps = [("V:" + wv) if fits else None,
                    ("S:" + wv) if fits else "N",
                    "V:%x" % (L.clamp(R) & L.mask),
                    "V:" + wv,
                    "O:%s:%d" % (wv, 0 if fits else 1)]
            scaled = val * (1 << L.f)
            tie = (scaled.denominator == 2)
            oc = ("fits" if fits else ("over+" if R > L.hi else "over-")) + ("/tie" if tie else ("/exact" if scaled.denominator == 1 else ""))
            if not fits:
                d = (R - L.hi) if R > L.hi else (L.lo - R)
                if d <= 1:
                    st.bump("from_float_overflow_within_1ulp")
            for name, exp, t in zip(FORM5, exps, outs[0:5]):
                st.checks += 1
                if exp is None:
                    continue
                if t != exp:
                    if t[0] == "P":
                        st.violation("C05:%s:panic:%s:%s" % (name, fc, fam), line,
                                     "panicked (%s) on a finite float; exact rounded raw=%d fits=%s expected %s" % (panic_text(t), R, fits, exp))
                    else:
                        st.violation("C05:%s:wrong:%s:%s" % (name, fc, fam), line,
                                     "got %s expected %s (float=%s, rounded raw=%d, fits=%s)" % (t, exp, val, R, fits))
        else:
            oc = kind
            # non-finite: checked -> None; saturating(+-inf) -> bounds; everything else must panic
            for i, (name, t) in enumerate(zip(FORM5, outs[0:5])):
                st.checks += 1
                if i == 1:
                    if t != "N":
                        st.violation("C05:%s:nonfinite-not-None:%s" % (name, fam), line, "got %s for %s" % (t, kind))
                elif i == 2 and kind == "inf":
                    exp = "V:%x" % ((L.hi if val > 0 else L.lo) & L.mask)
                    if t != exp:
                        st.violation("C05:%s:inf-not-bound:%s" % (name, fam), line, "got %s expected %s" % (t, exp))
                else:
                    if t[0] != "P":
                        st.violation("C05:%s:nonfinite-accepted:%s:%s" % (name, kind, fam), line,
                                     "returned %s for a %s input instead of panicking" % (t, kind))
        if az:
            # static_cast float -> fixed can never be statically safe: None; a Some must at least be the right value
            t = outs[5]
            st.checks += 1
            if t != "N" and (kind != "fin" or t != exps[1]):
                st.violation("C05:az_static_cast:%s:%s:%s" % ("panic" if t[0] == "P" else "wrong", fc, fam), line,
                             "static_cast of a float returned %s" % (panic_text(t) if t[0] == "P" else t))
            outs = outs[0:5] + outs[6:12]
        # ---- fixed -> float
        A = L.val(a)
        eb = encode_float(w, A, L.f)
        et = "%x" % eb
        exps = ["V:" + et, "S:" + et, "V:" + et, "V:" + et, "O:%s:0" % et, ("S:" if az else "V:") + et]
        for name, exp, t in zip(TO6, exps, outs[5:11]):
            st.checks += 1
            if t != exp:
                st.violation("C05:%s:%s:%s->f%d" % (name, "panic" if t[0] == "P" else "wrong", L.family(), w), line,
                             "got %s expected %s (value bits %d / 2^%d)" % (panic_text(t) if t[0] == "P" else t, exp, A, L.f))
        tfc = float_class(w, eb)
        nb = abs(A).bit_length()
        rounded = nb > (24 if w == 32 else 53)
        st.cover(L.name, ("zl%d" if az else "fl%d") % w, (fc, oc, tfc, "rnd" if rounded else "exact"), fc != "zero" and a != 0, line)


def allowed_checked_panics(toks):
    """plain from_num of a finite float whose rounded value does not fit; every
    non-checked form for non-finite input (documented)"""
    if toks[0] not in ("fl", "zl"):
        return set()
    L = lay(toks[1])
    w = int(toks[2])
    kind, val = decode_float(w, int(toks[4], 16))
    if kind == "fin":
        R = round_half_even(val * (1 << L.f))
        return set() if L.fits(R) else {0}
    if kind == "inf":
        return {0, 3, 4}
    return {0, 2, 3, 4}
