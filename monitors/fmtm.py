"""C09 monitor: formatting against the exact expansion of the value.

  fm L a kind flagset width prec => T:<text>
     kind 0 Display 1 Debug 2 Binary 3 Octal 4 LowerHex 5 UpperHex
     flagset index into FLAGSETS; width / prec decimal or '-'
  fr L a => T:to_string K:from_str(to_string) T:Wrapping.to_string

Model of padding (core::fmt conventions): text = fill* sign prefix zeros* core fill*
where sign is '-' for negative values, '+' if requested; prefix 0b/0o/0x only
with '#'; zeros only with the '0' flag (which overrides fill/alignment);
total length = max(width, unpadded length).  The numeric core is then judged:
with d fractional digits shown it must equal round-half-even(|value| * r^d).
"""
from common import Stats, lay, opclass, panic_text, unhex
from parsem import exact_parse

FLAGSETS = ["", "+", "#", "0", "+#0", "<", "^", ">", "*^", "*<+#"]
RADIX = {0: 10, 1: 10, 2: 2, 3: 8, 4: 16, 5: 16}
PREFIX = {2: "0b", 3: "0o", 4: "0x", 5: "0x"}
KIND = ["Display", "Debug", "Binary", "Octal", "LowerHex", "UpperHex"]
LOW = "0123456789abcdef"
UP = "0123456789ABCDEF"


def rhe_div(num, den):
    q, r = divmod(num, den)
    if 2 * r > den or (2 * r == den and (q & 1)):
        q += 1
    return q


def strip_padding(text, flags, width, neg, kind):
    """-> (core, error)"""
    plus = "+" in flags
    alt = "#" in flags
    zero = "0" in flags
    fill = "*" if "*" in flags else " "
    align = "<" if "<" in flags else ("^" if "^" in flags else (">" if ">" in flags else None))
    sign = "-" if neg else ("+" if plus else "")
    prefix = PREFIX.get(kind, "") if alt else ""
    head = sign + prefix
    s = text
    if zero:
        if not s.startswith(head):
            return None, "expected to start with %r" % head
        rest = s[len(head):]
        ip = rest.split(".")[0]
        minimal = ip.lstrip("0") or "0"
        padz = len(ip) - len(minimal)
        if padz > 0 and (width is None or len(s) != width):
            return None, "superfluous leading zeros (%d) but length %d != width %s" % (padz, len(s), width)
        core = rest[padz:]
        if width is not None and len(s) < width:
            return None, "shorter than the requested width"
        return core, None
    # fill / alignment
    a = len(s) - len(s.lstrip(fill)) if fill != "0" else 0
    b = len(s) - len(s.rstrip(fill))
    # the core itself never starts/ends with the fill characters used here (' ' or '*')
    inner = s[a:len(s) - b] if b else s[a:]
    if not inner.startswith(head):
        return None, "expected sign/prefix %r after the padding" % head
    core = inner[len(head):]
    unpadded = len(inner)
    want = max(width or 0, unpadded)
    if len(s) != want:
        return None, "length %d, expected max(width, unpadded) = %d" % (len(s), want)
    pad = len(s) - unpadded
    if align == "<":
        ok = (a == 0)
    elif align == "^":
        ok = (a == pad // 2)
    else:
        ok = (b == 0)
    if not ok:
        return None, "padding on the wrong side (left %d, right %d, alignment %s)" % (a, b, align)
    return core, None


class Mon(object):
    def __init__(self, prop, profile):
        self.prop = prop
        self.profile = profile
        self.st = Stats(prop, profile)

    def event(self, line, toks):
        st = self.st
        op = toks[0]
        L = lay(toks[1])
        a = int(toks[2], 16)
        A = L.val(a)
        if op == "fr":
            outs = toks[4:]
            st.checks += 3
            if outs[0][0] == "P" or outs[1][0] == "P":
                st.violation("C09:to_string:panic:%s" % L.family(), line, "panicked: %s" % panic_text(outs[0] if outs[0][0] == "P" else outs[1]))
                return
            text = unhex(outs[0][2:]).decode()
            exp = "K:%x" % a
            if outs[1] != exp:
                got = outs[1] if outs[1][0] != "E" else "Err(%s)" % unhex(outs[1][2:]).decode()
                st.violation("C09:roundtrip:library-parse:%s" % L.family(), line,
                             "to_string() = %r parses back (library FromStr) to %s, expected %s" % (text, got, exp))
            R = exact_parse(L, text, 10)
            if R is None or (R & L.mask) != a or not L.fits(R):
                st.violation("C09:roundtrip:exact-parse:%s" % L.family(), line,
                             "to_string() = %r has exact nearest value %s, not the printed value (raw %d)" % (text, R, A))
            if len(outs) > 2 and outs[2] != outs[0]:
                st.violation("C09:wrapping-display-differs:%s" % L.family(), line, "Wrapping(x).to_string() != x.to_string()")
            st.cover(L.name, "fr", (opclass(L, a), "len%d" % min(len(text) // 8, 8)), a != 0, line)
            return
        if op == "fw":
            # Display of Wrapping<F> next to Display of F under the same specification: identical text
            # (F's own text is judged by the fm events; this is the forwarding)
            outs = toks[7:]
            st.checks += 1
            if outs[0][0] == "P":
                st.violation("C09:wrapping-display:panic:%s" % L.family(), line, "panicked: %s" % panic_text(outs[0]))
            elif outs[0] != outs[1]:
                st.violation("C09:wrapping-display-differs:%s" % L.family(), line,
                             "format!(spec, Wrapping(x)) = %r but format!(spec, x) = %r (flags %s width %s precision %s)" % (
                                 unhex(outs[0][2:]).decode(), unhex(outs[1][2:]).decode() if outs[1][0] == "T" else outs[1],
                                 toks[3], toks[4], toks[5]))
            st.cover(L.name, "fw", (toks[3], toks[4] != "-", toks[5] != "-"), a != 0, line)
            return
        if op != "fm":
            return
        kind = int(toks[3], 16)
        fs = int(toks[4], 16)
        width = None if toks[5] == "-" else int(toks[5])
        prec = None if toks[6] == "-" else int(toks[6])
        out = toks[8]
        st.checks += 1
        flags = FLAGSETS[fs]
        sig = "%s:%s" % (KIND[kind], L.family())
        if out[0] == "P":
            st.violation("C09:panic:%s" % sig, line, "format!(\"{:%s%s%s%s}\") panicked: %s" % (
                flags, width if width is not None else "", ".%d" % prec if prec is not None else "", " bxoX?"[kind] if kind else "", panic_text(out)))
            return
        text = unhex(out[2:]).decode()
        core, err = strip_padding(text, flags, width, A < 0, kind)
        radix = RADIX[kind]
        if err:
            st.violation("C09:padding:%s" % sig, line, "%r (flags %r width %s prec %s): %s" % (text, flags, width, prec, err))
            return
        # numeric core
        if core.count(".") > 1 or not core or core[0] == "." or core[-1] == ".":
            if not (core and core[-1] == "." and prec is not None and False):
                st.violation("C09:malformed-core:%s" % sig, line, "core %r of %r" % (core, text))
                return
        ip, _, fp = core.partition(".")
        alphabet = UP if kind == 5 else LOW
        if any(c not in alphabet[:radix] for c in ip + fp):
            st.violation("C09:bad-digit:%s" % sig, line, "core %r has a digit outside %r" % (core, alphabet[:radix]))
            return
        if len(ip) > 1 and ip[0] == "0":
            st.violation("C09:leading-zero:%s" % sig, line, "core %r of %r" % (core, text))
            return
        d = len(fp)
        if prec is not None and d != prec:
            st.violation("C09:precision-not-honoured:%s" % sig, line, "requested %d fractional digits, %d shown in %r" % (prec, d, text[:80]))
            return
        printed = int(ip + fp, radix)
        expected = rhe_div(abs(A) * radix ** d, 1 << L.f)
        if printed != expected:
            st.violation("C09:wrong-digits:%s:%s" % ("prec" if prec is not None else "auto", sig), line,
                         "value raw %d/2^%d printed as %r (flags %r width %s prec %s): %d fractional digits shown, correctly rounded digits are %d, printed %d" % (
                             A, L.f, text[:100], flags, width, prec, d, expected, printed))
            return
        if prec is None and radix != 10:
            # power-of-two radices print the exact value
            if (abs(A) * radix ** d) % (1 << L.f) != 0:
                st.violation("C09:inexact-radix2:%s" % sig, line, "%r is not the exact value" % text)
        exact = (abs(A) * radix ** d) % (1 << L.f) == 0
        st.cover(L.name, "fm:" + KIND[kind], (opclass(L, a), "f" + str(fs), "w" if width else "-",
                                               ("p0" if prec == 0 else "p<f" if prec is not None and prec < L.f else "p>=f") if prec is not None else "auto",
                                               "exact" if exact else "rounded"), a != 0, line)
