#!/usr/bin/env python3
"""C11 differential trace monitor.

usage: diff11.py <checked driver argv as JSON> <release driver argv as JSON> [<generator argv as JSON>]

Runs the same driver built under the two profiles with identical arguments
(same seed => same operand sequence; drivers derive operands from the PRNG and
raw bits only), reads both event streams in lockstep and applies, per outcome
token:
  * identical                                  -> fine
  * both panicked                              -> not C11's business
  * release panicked, checked returned         -> VIOLATION
  * checked panicked, release returned         -> allowed only at positions the
        per-property oracle marks as "operation without overflow handling whose
        exact result does not fit / zero divisor / non-finite float"
        (module.allowed_checked_panics); anything else -> VIOLATION
  * both returned, tokens differ               -> VIOLATION
If the two streams lose alignment (different operands on the same line) the run
is INCONCLUSIVE (reported as a monitor error), never a verdict.

A driver argv may also be given as {"argv": [...], "cwd": ..., "env": {...}}.  A 4th argument
{"mode": "ptr32"} selects the pointer-width supplement: stream A is the driver interpreted by Miri for a
32-bit target (i686: usize/isize/pointers are 32 bits wide, as on wasm32) with release semantics, stream B the
native x86-64 release build.  Both have checks off, so NO panic asymmetry is permitted; events whose
integer operand type is usize/isize are pointer-width typed by design and are skipped (counted).
"""
import json
import os
import subprocess
import sys

sys.path.insert(0, os.path.dirname(os.path.abspath(__file__)))
from common import Stats, panic_text  # noqa: E402
import arith  # noqa: E402
import rem as remm  # noqa: E402
import round as roundm  # noqa: E402
import conv  # noqa: E402
import fltm  # noqa: E402
import transm  # noqa: E402

ARITH_OPS = set(arith.FORMS) | {"fold"}
REM_OPS = set(remm.FORMS)
TRANS_OPS = {"sqrt", "log2", "ln", "exp", "pow", "powi", "sin", "cos", "tan"}


def allowed(toks):
    op = toks[0]
    if op in ARITH_OPS:
        return arith.allowed_checked_panics(toks)
    if op in REM_OPS:
        return remm.allowed_checked_panics(toks)
    if op == "round":
        return roundm.allowed_checked_panics(toks)
    if op in ("fi", "fb", "ff", "zi", "zb", "zf"):
        return conv.allowed_checked_panics(toks)
    if op in ("fl", "zl"):
        return fltm.allowed_checked_panics(toks)
    if op in TRANS_OPS:
        return transm.allowed_checked_panics(toks)
    return set()


def form_name(toks, i):
    op = toks[0]
    if op in REM_OPS:
        f = remm.FORMS[op]
        return f[i][0] if i < len(f) else "pos%d" % i
    if op == "fold":
        return ("sum_by_value", "sum_by_ref", "product_by_value", "product_by_ref")[i] if i < 4 else "fold[%d]" % i
    if op in ARITH_OPS:
        f = arith.FORMS[op]
        return "%s_%s" % (arith.FORM_NAME.get(f[i], f[i]) if i < len(f) else "pos", op)
    return "%s[%d]" % (op, i)


def opgroup(op):
    if op in ARITH_OPS:
        return "arith"
    if op in REM_OPS:
        return "rem"
    if op in TRANS_OPS:
        return "math"
    return op


def main():
    cmd_c = json.loads(sys.argv[1])
    cmd_r = json.loads(sys.argv[2])
    gen = json.loads(sys.argv[3]) if len(sys.argv) > 3 else None
    opts = json.loads(sys.argv[4]) if len(sys.argv) > 4 else {}
    ptr32 = opts.get("mode") == "ptr32"
    side_a, side_b = ("32-bit-target (Miri i686) build", "native x86-64 build") if ptr32 else ("checking build", "release build")
    st = Stats("C11", "ptr32" if ptr32 else "checked")
    procs = []
    skipped_ptr = 0
    abs_mons = []
    if ptr32:
        import cmpm
        abs_mons = [conv.Mon("C04", "ptr32"), cmpm.Mon("C03", "ptr32")]
    max_pairs = int(opts.get("max_pairs", 0))
    truncated = False
    import tempfile
    errf = tempfile.TemporaryFile(mode="w+") if ptr32 else None

    def start(cmd):
        cwd, env = None, None
        if isinstance(cmd, dict):
            cwd = cmd.get("cwd")
            if cmd.get("env"):
                env = dict(os.environ)
                env.update(cmd["env"])
            cmd = cmd["argv"]
        if gen:
            g = subprocess.Popen(gen, stdout=subprocess.PIPE)
            p = subprocess.Popen(cmd, stdin=g.stdout, stdout=subprocess.PIPE, stderr=errf,
                                 universal_newlines=True, bufsize=1 << 20, cwd=cwd, env=env, start_new_session=ptr32)
            g.stdout.close()
            procs.append(g)
        else:
            p = subprocess.Popen(cmd, stdin=subprocess.DEVNULL, stdout=subprocess.PIPE, stderr=errf,
                                 universal_newlines=True, bufsize=1 << 20, cwd=cwd, env=env, start_new_session=ptr32)
        procs.append(p)
        return p

    pc = start(cmd_c)
    pr = start(cmd_r)
    errors = 0
    pairs = 0
    identical = 0
    permitted = {}
    while True:
        lc = pc.stdout.readline()
        lr = pr.stdout.readline()
        if not lc and not lr:
            break
        if max_pairs and pairs >= max_pairs:
            # budgeted prefix of the two streams (the interpreter runs ~10-40 events/s and, on a 32-bit target, runs out
            # of fresh addresses after some 10^4 events): stop both sides here; nothing is concluded about the rest
            truncated = True
            break
        if not lc or not lr:
            errors += 1
            sys.stderr.write("MISALIGNED: one stream ended early (after %d pairs)\n" % pairs)
            break
        pairs += 1
        if lc == lr:
            identical += 1
            n = lc.count(" ") - lc[:lc.find("=>")].count(" ")
            st.checks += n
            tc = lc.split(None, 3)
            st.evaluations += 1
            st.layouts.add(tc[1])
            st.ops[tc[0]] = st.ops.get(tc[0], 0) + 1
            key = (tc[1], tc[0], "same")
            if key not in st.all_cells:
                st.all_cells.add(key)
                st.cells.add(key)
                if len(st.samples) < 8 and len(st.all_cells) % 211 == 1:
                    st.samples.append(lc.strip()[:300])
            continue
        tc = lc.split()
        tr = lr.split()
        sc = tc.index("=>")
        sr = tr.index("=>")
        if ptr32 and tc[0] in ("fi", "zi") and tr[0] == tc[0] and tc[1:3] == tr[1:3] and tc[3] != tr[3]:
            # integer operand type is usize / isize: its width (token 3) follows the pointer width by design, so the two
            # lines cannot be compared; the 32-bit line is judged ABSOLUTELY by the exact oracles of C04 / C03 instead
            # (the driver logs the generated 64-bit operand; the library received its low 32 bits)
            skipped_ptr += 1
            m = int(tc[3], 16)
            tj = list(tc)
            tj[5] = "%x" % (int(tc[5], 16) & ((1 << m) - 1))
            lj = " ".join(tj)
            for mon in abs_mons:
                before = {k: v["count"] for k, v in mon.st.violations.items()}
                mon.event(lj, tj)
                for sig, v in mon.st.violations.items():
                    if v["count"] > before.get(sig, 0):
                        st.violation("C11:ptr32:%s" % sig, lc, "32-bit target, pointer-width integer operand: " + v["detail"])
            st.evaluations += 1
            st.checks += len(tc) - sc - 1
            st.layouts.add(tc[1])
            st.ops[tc[0]] = st.ops.get(tc[0], 0) + 1
            continue
        if tc[:sc] != tr[:sr]:
            errors += 1
            sys.stderr.write("MISALIGNED at pair %d:\n  %s  %s" % (pairs, lc, lr))
            break
        oc = tc[sc + 1:]
        orr = tr[sr + 1:]
        n = max(len(oc), len(orr))
        if len(oc) != len(orr):
            # a by-reference group collapsed to one panic token on one side
            if len(oc) == 1 and oc[0][0] == "P":
                oc = oc * n
            elif len(orr) == 1 and orr[0][0] == "P":
                orr = orr * n
            else:
                # e.g. a program that stopped at a panicking step: compare the common prefix, the
                # first extra token of the longer side is compared against the panic
                m = min(len(oc), len(orr))
                oc, orr = oc[:m], orr[:m]
                n = m
        ok_pos = None
        div = "value"
        for i in range(n):
            a, b = oc[i], orr[i]
            st.checks += 1
            if a == b:
                continue
            if a[0] == "I" and i > 0 and (oc[i - 1][0] == "P" or orr[i - 1][0] == "P"):
                # hook counters of a call that unwound on one side: instrumentation, not a library result
                continue
            pa, pb = a[0] == "P", b[0] == "P"
            if pa and pb:
                continue
            if pb and not pa:
                st.violation("C11:%s:%s-only-panic:%s" % (form_name(tc, i), "native" if ptr32 else "release", tc[1].split(".")[0]), lc,
                             "%s panicked (%s) where the %s returned %s" % (side_b, panic_text(b), side_a, a))
                div = "viol"
                continue
            if pa and ptr32:
                st.violation("C11:%s:ptr32-only-panic:%s" % (form_name(tc, i), tc[1].split(".")[0]), lc,
                             "%s panicked (%s) where the %s returned %s (both have checks off)" % (side_a, panic_text(a), side_b, b))
                div = "viol"
                continue
            if pa and not pb:
                if ok_pos is None:
                    ok_pos = allowed(tc)
                collapsed = len(tc[sc + 1:]) == 1
                if i in ok_pos or (collapsed and ok_pos):
                    g = opgroup(tc[0])
                    permitted[g] = permitted.get(g, 0) + 1
                    div = "permitted"
                    continue
                st.violation("C11:%s:checked-only-panic:%s" % (form_name(tc, i), tc[1].split(".")[0]), lc,
                             "checking build panicked (%s) where the release build returned %s, and the oracle does not sanction a panic here"
                             % (panic_text(a), b))
                div = "viol"
                continue
            st.violation("C11:%s:value-differs%s:%s" % (form_name(tc, i), "-ptr32" if ptr32 else "", tc[1].split(".")[0]), lc,
                         "%s returned %s, %s returned %s" % (side_a, a, side_b, b))
            div = "viol"
        st.evaluations += 1
        st.layouts.add(tc[1])
        st.ops[tc[0]] = st.ops.get(tc[0], 0) + 1
        key = (tc[1], tc[0], div)
        if key not in st.all_cells:
            st.all_cells.add(key)
            st.cells.add(key)
            if len(st.samples) < 12:
                st.samples.append("checked: %s || release: %s" % (lc.strip()[:200], " ".join(tr[sr:])[:160]))
    if ptr32:
        # the interpreter must have finished cleanly: a Miri abort (UB report, unsupported operation) is not a verdict
        if truncated or errors:
            # (also after a misalignment: nobody reads the interpreter's pipe any more, a plain wait() would block for ever)
            # cargo -> cargo-miri -> miri: the whole process group has to go, or the interpreter keeps running orphaned
            import signal
            try:
                os.killpg(pc.pid, signal.SIGKILL)
            except OSError:
                pass
        rc = pc.wait()
        if rc != 0 and not truncated and not errors:
            errors += 1
            errf.seek(0)
            sys.stderr.write("32-bit interpreter run exited %s: %s\n" % (rc, errf.read()[-1500:]))
    for p in procs:
        try:
            if ptr32:
                import signal
                os.killpg(p.pid, signal.SIGKILL)
            else:
                p.kill()
        except Exception:
            pass
    if ptr32:
        st.extra["ptr32_aligned_pairs"] = pairs
        st.extra["ptr32_identical_pairs"] = identical
        st.extra["ptr32_usize_isize_events_judged_by_exact_oracle"] = skipped_ptr
        st.extra["ptr32_streams_cut_at_budget"] = int(truncated)
        res = st.result()
        res["profile"] = "ptr32(miri-i686)-vs-native"
        res["monitor_errors"] = errors
        sys.stdout.write(json.dumps(res) + "\n")
        return
    st.extra["aligned_pairs"] = pairs
    st.extra["identical_pairs"] = identical
    st.extra["permitted_checked_only_panics"] = permitted
    res = st.result()
    res["profile"] = "checked-vs-release"
    res["monitor_errors"] = errors
    sys.stdout.write(json.dumps(res) + "\n")


if __name__ == "__main__":
    main()
