"""C04 monitor: fixed<->integer, bool->fixed and fixed<->fixed conversions
against floor(value * 2^dst_frac) computed exactly.

  fi L s m a i => I->F: from_num checked_ saturating_ wrapping_ overflowing_from_num
                        checked_to_fixed overflowing_to_fixed
                  F->I: to_num checked_ saturating_ wrapping_ overflowing_to_num checked_from_fixed
                  C:fwd C:rev                         (comparisons: C03)
  fb L b      => from_num checked_ saturating_ wrapping_ overflowing_from_num   (bool)
  ff Ls Ld a  => S->D: D::from_num(s) checked_ saturating_ wrapping_ overflowing_
                       s.to_num::<D>() checked_ saturating_ wrapping_ overflowing_
                 C:fwd C:rev
  fx kind Ls Ld a => From / LossyFrom result (legal pairs only)
  zf Ls Ld a  => the az cast traits (crate feature "az", src/cast.rs): cast checked_cast saturating_cast
                 wrapping_cast overflowing_cast static_cast
  zi L s m a i => I->F: the six casts; F->I: the six casts
  zb L b      => bool->F: the six casts
"""
from common import Stats, lay, Lay, opclass, panic_text

FORM5 = ("plain", "checked", "saturating", "wrapping", "overflowing")
AZ6 = ("cast", "checked_cast", "saturating_cast", "wrapping_cast", "overflowing_cast", "static_cast")


def expect5(D, R):
    """expected tokens for (plain, checked, saturating, wrapping, overflowing); plain None when R does not fit"""
    fits = D.fits(R)
    w = "%x" % (R & D.mask)
    return [("V:" + w) if fits else None,
            ("S:" + w) if fits else "N",
            "V:%x" % (D.clamp(R) & D.mask),
            "V:" + w,
            "O:%s:%d" % (w, 0 if fits else 1)]


def intlay(signed, m):
    return lay("%s%d.0" % ("i" if signed else "u", m))


def conv_exact(S, D, A):
    """source raw A in layout S -> exact raw result in layout D (floor)"""
    sh = D.f - S.f
    return (A << sh) if sh >= 0 else (A >> (-sh))


class Mon(object):
    def __init__(self, prop, profile):
        self.prop = prop
        self.profile = profile
        self.st = Stats(prop, profile)

    def check(self, line, what, fam, names, exps, outs):
        st = self.st
        for name, exp, t in zip(names, exps, outs):
            st.checks += 1
            if exp is None:
                continue
            if t != exp:
                if t[0] == "P":
                    st.violation("C04:%s:%s:panic:%s" % (what, name, fam), line,
                                 "panicked (%s), expected %s" % (panic_text(t), exp))
                else:
                    st.violation("C04:%s:%s:wrong:%s" % (what, name, fam), line, "got %s expected %s" % (t, exp))

    def check_az(self, line, what, fam, D, R, outs, always_fits):
        """the five run-time casts are a second spelling of to_num/from_num and its four forms; static_cast
        (Some only when the conversion cannot overflow for any source value) is judged when it returns Some: the value must
        be the exact conversion result (a None where every source value fits is counted, not judged)"""
        st = self.st
        e = expect5(D, R)
        self.check(line, what, fam, AZ6[:5], e, outs[0:5])
        t = outs[5]
        st.checks += 1
        if t == "N":
            if always_fits:
                st.bump("static_cast_none_although_every_source_value_fits")
        elif t[0] == "P":
            st.violation("C04:%s:static_cast:panic:%s" % (what, fam), line, "panicked (%s)" % panic_text(t))
        elif t != e[1] or not D.fits(R):
            st.violation("C04:%s:static_cast:wrong:%s" % (what, fam), line,
                         "static_cast returned %s, exact result %s" % (t, e[1] if D.fits(R) else "does not fit the destination"))
        else:
            st.bump("static_cast_some_judged")

    def event(self, line, toks):
        st = self.st
        op = toks[0]
        if op == "zf":
            S = lay(toks[1])
            D = lay(toks[2])
            a = int(toks[3], 16)
            A = S.val(a)
            R = conv_exact(S, D, A)
            always = D.fits(conv_exact(S, D, S.lo)) and D.fits(conv_exact(S, D, S.hi))
            self.check_az(line, "az_fixed_to_fixed", "%s->%s" % (S.family(), D.family()), D, R, toks[5:11], always)
            st.cover(S.name + ">" + D.name, "zf", (opclass(S, a), "f" if D.fits(R) else ("+" if R > D.hi else "-"), toks[10][0]), a != 0, line)
        elif op == "zi":
            L = lay(toks[1])
            I = intlay(toks[2] == "i", int(toks[3], 16))
            a = int(toks[4], 16)
            ib = int(toks[5], 16)
            A = L.val(a)
            iv = I.val(ib)
            outs = toks[7:]
            R = iv << L.f
            self.check_az(line, "az_int_to_fixed", "%s<-%s" % (L.family(), I.family()), L, R, outs[0:6],
                          L.fits(I.lo << L.f) and L.fits(I.hi << L.f))
            R2 = A >> L.f
            self.check_az(line, "az_fixed_to_int", "%s->%s" % (L.family(), I.family()), I, R2, outs[6:12],
                          I.fits(L.lo >> L.f) and I.fits(L.hi >> L.f))
            st.cover(L.name, "zi:" + I.family(), (opclass(L, a), opclass(I, ib), "f" if L.fits(R) else "o", "f" if I.fits(R2) else "o",
                                                  outs[5][0], outs[11][0]), a != 0 and ib != 0, line)
        elif op == "zb":
            L = lay(toks[1])
            b = int(toks[2], 16)
            R = b << L.f
            self.check_az(line, "az_bool_to_fixed", L.family(), L, R, toks[4:10], L.fits(1 << L.f))
            st.cover(L.name, "zb", (str(b), "f" if L.fits(R) else "o", toks[9][0]), True, line)
        elif op == "fi":
            L = lay(toks[1])
            isigned = toks[2] == "i"
            m = int(toks[3], 16)
            I = intlay(isigned, m)
            a = int(toks[4], 16)
            ib = int(toks[5], 16)
            outs = toks[7:]
            A = L.val(a)
            iv = I.val(ib)
            # integer -> fixed: exact
            R = iv << L.f
            e = expect5(L, R)
            self.check(line, "int_to_fixed", "%s<-%s" % (L.family(), I.family()),
                       FORM5 + ("checked_to_fixed", "overflowing_to_fixed"), e + [e[1], e[4]], outs[0:7])
            # fixed -> integer: floor
            R2 = A >> L.f
            e2 = expect5(I, R2)
            self.check(line, "fixed_to_int", "%s->%s" % (L.family(), I.family()),
                       FORM5 + ("checked_from_fixed",), e2 + [e2[1]], outs[7:13])
            oc = ("f" if L.fits(R) else ("+" if R > L.hi else "-")) + ("f" if I.fits(R2) else ("+" if R2 > I.hi else "-"))
            st.cover(L.name, "fi:" + I.family(), (opclass(L, a), opclass(I, ib), oc), a != 0 and ib != 0, line)
        elif op == "fb":
            L = lay(toks[1])
            b = int(toks[2], 16)
            R = b << L.f
            self.check(line, "bool_to_fixed", L.family(), FORM5, expect5(L, R), toks[4:9])
            st.cover(L.name, "fb", (str(b), "f" if L.fits(R) else "o"), True, line)
        elif op == "ff":
            S = lay(toks[1])
            D = lay(toks[2])
            a = int(toks[3], 16)
            A = S.val(a)
            outs = toks[6:]
            R = conv_exact(S, D, A)
            e = expect5(D, R)
            fam = "%s->%s" % (S.family(), D.family())
            self.check(line, "fixed_to_fixed", fam, tuple("from_num:" + n for n in FORM5), e, outs[0:5])
            self.check(line, "fixed_to_fixed", fam, tuple("to_num:" + n for n in FORM5), e, outs[5:10])
            lost = (D.f < S.f) and (A & ((1 << (S.f - D.f)) - 1)) != 0
            oc = ("f" if D.fits(R) else ("+" if R > D.hi else "-")) + ("L" if lost else "")
            if not D.fits(R):
                d = (R - D.hi) if R > D.hi else (D.lo - R)
                if d <= 2:
                    st.bump("overflow_within_2ulp_of_bound")
            st.cover(S.name + ">" + D.name, "ff", (opclass(S, a), oc), a != 0, line)
        elif op == "fx":
            kind = toks[1]
            S = lay(toks[2])
            D = lay(toks[3])
            a = int(toks[4], 16)
            A = S.val(a)
            t = toks[6]
            R = conv_exact(S, D, A)
            st.checks += 1
            fam = "%s->%s" % (S.family(), D.family())
            if not D.fits(R):
                st.violation("C04:%s:overflowing-impl:%s" % (kind, fam), line,
                             "an infallible %s exists for a pair where value %d/2^%d does not fit the destination" % (kind, A, S.f))
            else:
                exp = "V:%x" % (R & D.mask)
                if kind == "from" and D.f < S.f:
                    st.violation("C04:from:lossy-impl:%s" % fam, line, "From exists for a pair that loses fractional bits")
                if t != exp:
                    st.violation("C04:%s:%s:%s" % (kind, "panic" if t[0] == "P" else "wrong", fam), line,
                                 "got %s expected %s" % (panic_text(t) if t[0] == "P" else t, exp))
            st.cover(S.name + ">" + D.name, "fx:" + kind, (opclass(S, a),), a != 0, line)
        elif op == "fxf":
            # fixed -> float through From (documented lossless) and LossyFrom
            from floats import encode_float, decode_float
            from fractions import Fraction
            S = lay(toks[2])
            w = int(toks[3])
            a = int(toks[4], 16)
            A = S.val(a)
            exp = encode_float(w, A, S.f)
            e = "V:%x" % exp
            for name, t in (("from", toks[6]), ("lossy_from", toks[7])):
                st.checks += 1
                if t != e:
                    st.violation("C04:float_%s:%s:%s->f%d" % (name, "panic" if t[0] == "P" else "wrong", S.family(), w), line,
                                 "got %s expected %s" % (panic_text(t) if t[0] == "P" else t, e))
            k, v = decode_float(w, exp)
            if k != "fin" or v != Fraction(A, 1 << S.f):
                st.violation("C04:float_from:not-lossless:%s->f%d" % (S.family(), w), line,
                             "From<%s> for f%d exists but %d/2^%d is not exactly representable" % (S.name, w, A, S.f))
            st.cover(S.name + ">f%d" % w, "fxf", (opclass(S, a),), a != 0, line)
        else:
            return


def allowed_checked_panics(toks):
    op = toks[0]
    if op == "fi":
        L = lay(toks[1])
        I = intlay(toks[2] == "i", int(toks[3], 16))
        A = L.val(int(toks[4], 16))
        iv = I.val(int(toks[5], 16))
        s = set()
        if not L.fits(iv << L.f):
            s.add(0)
        if not I.fits(A >> L.f):
            s.add(7)
        return s
    if op == "fb":
        L = lay(toks[1])
        return set() if L.fits(int(toks[2], 16) << L.f) else {0}
    if op == "ff":
        S = lay(toks[1])
        D = lay(toks[2])
        R = conv_exact(S, D, S.val(int(toks[3], 16)))
        return set() if D.fits(R) else {0, 5}
    # az casts: only the plain `cast` is a form without overflow handling
    if op == "zf":
        S = lay(toks[1])
        D = lay(toks[2])
        R = conv_exact(S, D, S.val(int(toks[3], 16)))
        return set() if D.fits(R) else {0}
    if op == "zi":
        L = lay(toks[1])
        I = intlay(toks[2] == "i", int(toks[3], 16))
        A = L.val(int(toks[4], 16))
        iv = I.val(int(toks[5], 16))
        s = set()
        if not L.fits(iv << L.f):
            s.add(0)
        if not I.fits(A >> L.f):
            s.add(6)
        return s
    if op == "zb":
        L = lay(toks[1])
        return set() if L.fits(int(toks[2], 16) << L.f) else {0}
    return set()
