"""C01 / C02 monitor: arithmetic forms against exact integer arithmetic.

Event grammar (driver body/arith.rs), all values hex bit patterns:
  neg a      => checked saturating wrapping overflowing plain plain_ref   ('-' = n/a on unsigned)
  abs a      => checked saturating wrapping overflowing plain            (signed only)
  signum a   => plain                                                    (signed only)
  npow2 a    => checked_next_power_of_two next_power_of_two is_power_of_two   (unsigned only)
  add|sub|mul|div a b => checked saturating wrapping overflowing plain assign
  mul_int a i => checked saturating wrapping overflowing plain assign int_times_fixed
  div_int a i => checked wrapping overflowing plain assign
  <op>_r a b => three by-reference spellings (+ assign-by-ref), or one P token
  signum_t | npow2_t | abs_t a => the same tokens as signum / npow2 / abs through the FixedSigned / FixedUnsigned trait impls
  fold k x1..xk => iter::Sum over values, over references; iter::Product over values, over references
"""
from common import Stats, lay, trunc_div, opclass, panic_text, TRIVIAL_CLASSES

# positions: name -> kind  (c=checked s=saturating w=wrapping o=overflowing p=plain)
FORMS = {
    "signum": "p",
    "npow2": "cpb",
    "neg": "cswopp",
    "abs": "cswop",
    "add": "cswopp",
    "sub": "cswopp",
    "mul": "cswopp",
    "div": "cswopp",
    "mul_int": "cswoppp",
    "div_int": "cwopp",
    "signum_t": "p",
    "npow2_t": "cpb",
    "abs_t": "cswop",
    "add_r": "pppp",
    "sub_r": "pppp",
    "mul_r": "pppp",
    "div_r": "pppp",
    "mul_int_r": "ppppppp",
    "div_int_r": "pppp",
}
FORM_NAME = {"c": "checked", "s": "saturating", "w": "wrapping", "o": "overflowing", "p": "plain", "b": "is_power_of_two"}
C01_OPS = ("mul", "div", "mul_r", "div_r")


def exact(L, op, A, B):
    """exact raw result R (python int) or None for a zero divisor"""
    base = op[:-2] if (op.endswith("_r") or op.endswith("_t")) else op
    if base == "signum":
        return (1 if A > 0 else (-1 if A < 0 else 0)) << L.f
    if base == "npow2":
        return 1 if A <= 1 else 1 << (A - 1).bit_length()
    if base == "neg":
        return -A
    if base == "abs":
        return abs(A)
    if base == "add":
        return A + B
    if base == "sub":
        return A - B
    if base == "mul":
        return (A * B) >> L.f
    if base == "div":
        if B == 0:
            return None
        return trunc_div(A << L.f, B)
    if base == "mul_int":
        return A * B
    if base == "div_int":
        if B == 0:
            return None
        return trunc_div(A, B)
    raise ValueError(op)


def fold_exact(L, xs):
    """-> (sum or None, product or None): the running results of the left folds with + and * (floor product at every step);
    None as soon as a running result is not representable (the plain operators promise nothing then), and for the
    empty product on a layout that cannot represent 1"""
    s = 0
    for x in xs:
        if s is not None:
            s += x
            if not L.fits(s):
                s = None
    if xs:
        p = xs[0]
        for x in xs[1:]:
            if p is not None:
                p = (p * x) >> L.f
                if not L.fits(p):
                    p = None
    else:
        p = 1 << L.f
        if not L.fits(p):
            p = None
    return s, p


class Mon(object):
    def __init__(self, prop, profile):
        self.prop = prop
        self.profile = profile
        self.st = Stats(prop, profile)

    def fold_event(self, line, toks):
        """Sum / Product are the fold spellings of + and *: C02 judges the sums, C01 and C02 the products, whenever every
        running result is representable (otherwise the plain operators' behaviour is not pinned down)"""
        st = self.st
        L = lay(toks[1])
        k = int(toks[2], 16)
        xs = [L.val(int(t, 16)) for t in toks[3:3 + k]]
        outs = toks[toks.index("=>") + 1:]
        s, p = fold_exact(L, xs)
        names = ("sum_by_value", "sum_by_ref", "product_by_value", "product_by_ref")
        for i, (name, t) in enumerate(zip(names, outs)):
            exact_r = s if i < 2 else p
            if self.prop == "C01" and i < 2:
                continue
            st.checks += 1
            if exact_r is None:
                st.bump("fold_running_result_not_representable_not_judged")
                continue
            exp = "V:%x" % (exact_r & L.mask)
            if t != exp:
                kind = "panic" if t[0] == "P" else "wrong"
                st.violation("%s:%s:%s:%s" % (self.prop, name, kind, L.family()), line,
                             "%s of %d elements: got %s expected %s" % (name, k, panic_text(t) if t[0] == "P" else t, exp))
        st.cover(L.name, "fold", (str(k), "s" if s is not None else "so", "p" if p is not None else "po"), k >= 2, line)

    def event(self, line, toks):
        st = self.st
        op = toks[0]
        if op == "fold":
            return self.fold_event(line, toks)
        forms = FORMS[op]
        if self.prop == "C01" and op not in C01_OPS:
            return
        L = lay(toks[1])
        sep = toks.index("=>")
        a = int(toks[2], 16)
        b = int(toks[3], 16) if sep > 3 else 0
        outs = toks[sep + 1:]
        A = L.val(a)
        B = L.val(b)
        R = exact(L, op, A, B)
        divzero = R is None
        fits = (not divzero) and L.fits(R)
        # coverage cell
        if divzero:
            oc = "div0"
        elif fits:
            oc = "fits"
        else:
            oc = "over+" if R > L.hi else "over-"
        ca = opclass(L, a)
        cb = opclass(L, b) if sep > 3 else ""
        nontrivial = ca not in TRIVIAL_CLASSES and cb not in TRIVIAL_CLASSES
        st.cover(L.name, op, (ca, cb, oc), nontrivial, line)
        if fits and not divzero:
            d = min(R - L.lo, L.hi - R)
            if d <= 2:
                st.bump("fits_within_2ulp_of_bound")
        elif not divzero:
            d = (R - L.hi) if R > L.hi else (L.lo - R)
            if d <= 2:
                st.bump("overflow_within_2ulp_of_bound")

        if self.prop == "C01":
            if not fits:
                return  # non-representable results are C02's business
        # by-reference group collapsed to one P token
        if len(outs) == 1 and outs[0][0] == "P" and len(forms) > 1:
            outs = [outs[0]] * len(forms)
        if len(outs) != len(forms):
            raise ValueError("token count")
        checked_profile = self.profile == "checked"
        if not divzero:
            w = "%x" % (R & L.mask)
        for i, kind in enumerate(forms):
            t = outs[i]
            if t == "-":
                continue
            if self.prop == "C01" and kind not in "cop":
                continue
            st.checks += 1
            if divzero:
                # checked forms return None; all others panic (documented)
                if kind == "c":
                    if t != "N":
                        st.violation("%s:%s:%s:zero-divisor-not-None" % (self.prop, op, FORM_NAME[kind]),
                                     line, "checked form with zero divisor returned %s" % t)
                # non-checked forms: documented panic; nothing else is promised
                continue
            if kind == "b":
                exp = "B:%d" % (1 if (A > 0 and A & (A - 1) == 0) else 0)   # is_power_of_two of the operand
            elif kind == "c":
                exp = ("S:" + w) if fits else "N"
            elif kind == "s":
                exp = "V:%x" % (L.clamp(R) & L.mask)
            elif kind == "w":
                exp = "V:" + w
            elif kind == "o":
                exp = "O:%s:%d" % (w, 0 if fits else 1)
            else:  # plain
                if fits:
                    exp = "V:" + w
                else:
                    # not representable: the property set pins nothing down for the
                    # plain form (wraps or panics; C11 compares the two profiles)
                    continue
            if t != exp:
                if t[0] == "P":
                    sig = "%s:%s:%s:panic" % (self.prop, op, FORM_NAME[kind])
                    det = "panicked (%s); exact R=%d fits=%s expected %s" % (panic_text(t), R, fits, exp)
                else:
                    sig = "%s:%s:%s:wrong" % (self.prop, op, FORM_NAME[kind])
                    det = "got %s expected %s (exact R=%d fits=%s)" % (t, exp, R, fits)
                st.violation(sig + ":" + L.family(), line, det)


def allowed_checked_panics(toks):
    """for C11: positions at which a panic under the checking profile is
    sanctioned (plain forms whose exact result does not fit, or zero divisor in
    a non-checked form)"""
    op = toks[0]
    if op == "fold":
        L = lay(toks[1])
        k = int(toks[2], 16)
        s, p = fold_exact(L, [L.val(int(t, 16)) for t in toks[3:3 + k]])
        return (set() if s is not None else {0, 1}) | (set() if p is not None else {2, 3})
    forms = FORMS[op]
    L = lay(toks[1])
    sep = toks.index("=>")
    A = L.val(int(toks[2], 16))
    B = L.val(int(toks[3], 16)) if sep > 3 else 0
    R = exact(L, op, A, B)
    if R is None:
        return set(i for i, k in enumerate(forms) if k != "c")
    if L.fits(R):
        return set()
    return set(i for i, k in enumerate(forms) if k == "p")
