"""C12-C17 monitor: math functions (sqrt, log2, ln, exp, pow, powi, sin, cos, tan).

Event grammar (driver body/trans.rs):
  <fn> Ls Ld x [y|n] => <outcome> I:c0,..,c7 [<outcome2> I:...]
outcome: K:<bits> = Ok(bits), E:- = Err, V:<bits> = value (trig), P:<hex> = panic.
A panic whose message starts with 'vf-iter-limit' is the hook's iteration-limit
abort (an `L` outcome): the call did not finish within 16x the C17 bound.
I: per-site loop iteration counts of that call
   (0 sqrt-newton 1 log2-int 2 log2-frac 3 exp-series 4 powi 5 cordic 6 sin-down 7 sin-up).

The property decides which rule set is applied (C12 totality, C13 sqrt, C14
log2/ln, C15 exp/pow/powi, C16 trig accuracy, C17 bounded work).  References:
exact integers for sqrt and small integer powers, mpmath at 500 bits otherwise.
"""
from fractions import Fraction
import mpmath
from mpmath import mpf
from common import Stats, lay, panic_text, trunc_div

mpmath.mp.prec = 500
POWI_SITE = 4
TWO = mpf(2)


def mpval(L, X):
    return mpf(X) / (1 << L.f) if L.f else mpf(X)


def outcome(tok):
    """-> (kind, bits)  kind in ok/err/val/panic/limit"""
    c = tok[0]
    if c == "K":
        return "ok", int(tok[2:], 16)
    if c == "V":
        return "val", int(tok[2:], 16)
    if c == "E":
        return "err", None
    if c == "P":
        txt = panic_text(tok)
        if "vf-iter-limit" in txt:
            return "limit", txt
        return "panic", txt
    if c == "-":
        return "na", None
    raise ValueError(tok)


def counts(tok):
    return [int(c) for c in tok[2:].split(",")]


def recip_unrepresentable(D, XD):
    """D::from_num(1).checked_div(x) is None for x = XD (raw in D, XD > 0)"""
    q = trunc_div(1 << (2 * D.f), XD)
    return not D.fits(q)


def magclass(L, X):
    if X == 0:
        return "0"
    a = abs(X)
    e = a.bit_length() - 1 - L.f
    return ("-" if X < 0 else "") + ("e%d" % (e // 8 * 8))


class Mon(object):
    def __init__(self, prop, profile):
        self.prop = prop
        self.profile = profile
        self.st = Stats(prop, profile)
        self.maxerr = {}     # (fn, D) -> [ratio of error to bound, witness]
        self.maxiter = {}    # (fn, D) -> [count, witness]

    # ------------------------------------------------------------------ helpers
    def note_err(self, fn, D, err, bound, line):
        if bound <= 0:
            return
        r = float(err / bound)
        k = "%s/%s" % (fn, D.name)
        m = self.maxerr.get(k)
        if m is None or r > m[0]:
            self.maxerr[k] = [r, line.strip()[:160]]
        self.st.extra["max_error_over_bound"] = self.maxerr

    def viol(self, sig, line, detail):
        self.st.violation("%s:%s" % (self.prop, sig), line, detail)

    # ------------------------------------------------------------------ main
    def event(self, line, toks):
        st = self.st
        fn = toks[0]
        S = lay(toks[1])
        D = lay(toks[2])
        sep = toks.index("=>")
        x = int(toks[3], 16)
        X = S.val(x)
        y = int(toks[4], 16) if sep > 4 else None
        outs = toks[sep + 1:]
        kind, res = outcome(outs[0])
        cnt = counts(outs[1])
        prop = self.prop
        fam = "%s>%s" % (S.name, D.name)
        if prop == "C12":
            self.c12(line, fn, S, D, X, y, kind, res, fam)
        elif prop == "C13":
            if fn != "sqrt":
                return
            self.c13(line, S, D, X, kind, res, fam)
        elif prop == "C14":
            if fn not in ("log2", "ln"):
                return
            self.c14(line, fn, S, D, X, kind, res, fam)
        elif prop == "C15":
            if fn not in ("exp", "pow", "powi"):
                return
            self.c15(line, fn, S, D, X, y, kind, res, outs, fam)
        elif prop == "C16":
            if fn not in ("sin", "cos", "tan"):
                return
            self.c16(line, fn, S, X, kind, res, fam)
        elif prop == "C17":
            if fn == "powi":
                return
            self.c17(line, fn, S, D, X, kind, res, cnt, fam)
        okind = kind
        st.cover(fam, fn, (magclass(S, X), okind), X != 0 and X != (1 << S.f), line)

    # ------------------------------------------------------------------ C12
    def c12(self, line, fn, S, D, X, y, kind, res, fam):
        st = self.st
        st.checks += 1
        xv = mpval(S, X)
        if fn in ("sin", "cos", "tan"):
            lim = 200 if fn != "tan" else 100
            indom = abs(X) <= (lim << S.f)
            if indom and fn == "tan":
                t = mpmath.tan(xv)
                if abs(t) > 64 - TWO ** -10:
                    indom = False
            if not indom:
                st.bump("trig_outside_domain_not_judged")
                return
            if kind == "panic":
                self.viol("%s:panic:%s" % (fn, fam), line, "panicked inside the guaranteed domain: %s" % res)
            elif kind == "limit":
                self.viol("%s:no-return-within-iteration-limit:%s" % (fn, fam), line,
                          "the call did not return inside the guaranteed domain: aborted by the hook (%s)" % res)
            return
        if kind == "panic":
            self.viol("%s:panic:%s" % (fn, fam), line, "Result-returning function panicked: %s" % res)
            return
        if kind == "limit":
            if fn == "powi":
                st.bump("aborted_by_iteration_limit(powi)")   # linear in |n| by design: capped by the harness, not judged
            else:
                # totality: the call neither returned Ok nor Err within 16x the C17 work bound (the hook aborted it)
                self.viol("%s:no-return-within-iteration-limit:%s" % (fn, fam), line,
                          "the call did not return: aborted by the hook after 16x(4*width+64) loop iterations (%s)" % res)
            return
        # mathematically undefined requests must be Err
        if fn == "sqrt" and X < 0 and kind != "err":
            self.viol("sqrt:negative-accepted:%s" % fam, line, "sqrt of a negative operand returned Ok")
        if fn in ("log2", "ln") and X <= 0 and kind != "err":
            self.viol("%s:nonpositive-accepted:%s" % (fn, fam), line, "logarithm of a non-positive operand returned Ok")
        if fn == "pow":
            Y = S.val(y)
            frac_y = Y & ((1 << S.f) - 1)
            if X < 0 and frac_y != 0 and kind != "err":
                self.viol("pow:negative-base-fractional-exponent-accepted:%s" % fam, line, "returned Ok")
        # results that do not fit must be Err, not Ok(garbage).  An Ok(r) inside the
        # C15 error band of the true result is consistent with C15, so the check
        # fires only when the WHOLE band around the true result is out of range.
        if kind == "ok":
            true = None
            if fn == "exp":
                true = mpmath.exp(xv)
                rel = TWO ** -20
            elif fn == "pow" and X > 0:
                Y = S.val(y)
                yv = mpval(S, Y)
                if Y != 0 and Y != (1 << S.f):
                    true = mpmath.power(xv, yv)
                    rel = TWO ** -18 + abs(yv * mpmath.log(xv)) * TWO ** -22 + 16 * abs(yv) * TWO ** -D.f
            elif fn == "powi" and X != 0:
                n = y - (1 << 32) if y >> 31 else y
                if 2 <= n <= 4096:
                    true = mpmath.power(xv, n)
                    # (|n|+1) ulp * max(1,|x|)^(n-1) relative to |x|^n
                    rel = (n + 1) * TWO ** -D.f * mpmath.power(max(mpf(1), abs(xv)), n - 1) / abs(true) if true != 0 else mpf(1)
            if true is not None:
                hi = mpval(D, D.hi)
                lo = mpval(D, D.lo)
                slack = 64 * TWO ** -D.f
                if rel >= 1:
                    st.bump("band_wider_than_value_not_judged")
                elif (true > 0 and true * (1 - rel) - slack > hi) or (true < 0 and true * (1 - rel) + slack < lo):
                    self.viol("%s:unrepresentable-result-accepted:%s" % (fn, fam), line,
                              "returned Ok(%d) although the true result %s (and its whole error band) is outside the destination range" % (D.val(res), mpmath.nstr(true, 20)))
                    st.bump("true_result_out_of_range_ok")
                else:
                    st.bump("ok_in_range")
        elif kind == "err":
            st.bump("err")

    # ------------------------------------------------------------------ C13
    def c13(self, line, S, D, X, kind, res, fam):
        st = self.st
        st.checks += 1
        if kind in ("panic", "limit"):
            st.bump("not_judged_" + kind)
            return
        s, g = S.f, D.f
        XD = X << (g - s)          # operand in D (From<S> guarantees g >= s)
        if kind == "err":
            legit = X < 0 or (0 < XD < (1 << g) and recip_unrepresentable(D, XD))
            if not legit:
                self.viol("sqrt:spurious-err:%s" % fam, line, "Err for x=%d/2^%d, which is >= 0 and has a representable reciprocal" % (X, s))
            else:
                st.bump("legit_err")
            return
        if X < 0:
            return  # C12's business
        R = D.val(res)
        if R < 0:
            self.viol("sqrt:negative-result:%s" % fam, line, "result %d < 0" % R)
            return
        if X == 0 or X == (1 << s):
            if R != (X << (g - s)):
                self.viol("sqrt:inexact-at-0-or-1:%s" % fam, line, "sqrt(%s) = %d/2^%d" % ("0" if X == 0 else "1", R, g))
            return
        # |R/2^g - sqrt(X/2^s)| <= 4/2^g  <=>  max(R-4,0)^2 * 2^s <= X * 2^(2g) <= (R+4)^2 * 2^s
        lhs = X << (2 * g)
        lo = max(R - 4, 0)
        ok = (lo * lo) << s <= lhs <= ((R + 4) * (R + 4)) << s
        # error ratio for the evidence (integer sqrt)
        import math
        tr = math.isqrt(lhs >> s) if s <= 2 * g else 0
        self.note_err("sqrt", D, Fraction(abs(R - tr)), Fraction(4), line)
        if not ok:
            self.viol("sqrt:inaccurate:%s" % fam, line, "result %d/2^%d, true sqrt ~ %d/2^%d (off by %d ulp, allowed 4)" % (R, g, tr, g, abs(R - tr)))

    # ------------------------------------------------------------------ C14
    def c14(self, line, fn, S, D, X, kind, res, fam):
        st = self.st
        st.checks += 1
        if kind in ("panic", "limit"):
            st.bump("not_judged_" + kind)
            return
        s, g = S.f, D.f
        XD = X << (g - s)
        if kind == "err":
            legit = X <= 0 or (XD < (1 << g) and recip_unrepresentable(D, XD))
            if not legit:
                self.viol("%s:spurious-err:%s" % (fn, fam), line, "Err for x=%d/2^%d > 0 with a representable reciprocal" % (X, s))
            else:
                st.bump("legit_err")
            return
        if X <= 0:
            return
        R = D.val(res)
        xv = mpval(S, X)
        ulp = TWO ** -g
        if fn == "log2":
            true = mpmath.log(xv, 2)
            err = abs(mpval(D, R) - true)
            bound = 8 * ulp
            self.note_err(fn, D, err, bound, line)
            if err > bound:
                self.viol("log2:inaccurate:%s" % fam, line, "log2 = %s, true %s, error %s ulp (allowed 8)" % (
                    mpmath.nstr(mpval(D, R), 25), mpmath.nstr(true, 25), mpmath.nstr(err / ulp, 8)))
            if X & (X - 1) == 0:
                k = X.bit_length() - 1 - s
                if R != (k << g):
                    self.viol("log2:inexact-on-power-of-two:%s" % fam, line, "log2(2^%d) = %d/2^%d" % (k, R, g))
            one = 1 << s
            if (X <= one and R > 0) or (X >= one and R < 0):
                self.viol("log2:wrong-sign:%s" % fam, line, "x %s 1 but result %d" % ("<=" if X <= one else ">=", R))
        else:
            true = mpmath.log(xv)
            err = abs(mpval(D, R) - true)
            bound = TWO ** -23 * abs(true) + 8 * ulp
            self.note_err(fn, D, err, bound, line)
            if err > bound:
                self.viol("ln:inaccurate:%s" % fam, line, "ln = %s, true %s, error/bound = %s" % (
                    mpmath.nstr(mpval(D, R), 25), mpmath.nstr(true, 25), mpmath.nstr(err / bound, 8)))

    # ------------------------------------------------------------------ C15
    def c15(self, line, fn, S, D, X, y, kind, res, outs, fam):
        st = self.st
        st.checks += 1
        if kind != "ok":
            st.bump("not_judged_" + kind)
            # powi(x, n<0) must fail when powi(x, |n|) failed is implied by 'equals the truncated reciprocal' only for Ok
            return
        g = D.f
        R = D.val(res)
        rv = mpval(D, R)
        xv = mpval(S, X)
        ulp = TWO ** -g
        if fn == "exp":
            true = mpmath.exp(xv)
            err = abs(rv - true)
            bound = TWO ** -20 * true + 64 * ulp
            self.note_err(fn, D, err, bound, line)
            if err > bound:
                self.viol("exp:inaccurate:%s" % fam, line, "exp(%s) = %s, true %s, error/bound = %s" % (
                    mpmath.nstr(xv, 12), mpmath.nstr(rv, 20), mpmath.nstr(true, 20), mpmath.nstr(err / bound, 8)))
        elif fn == "pow":
            Y = S.val(y)
            yv = mpval(S, Y)
            one_s = 1 << S.f
            if X == 0:
                if R != 0:
                    self.viol("pow:0^y-not-0:%s" % fam, line, "pow(0, y) = %d" % R)
                return
            if Y == 0:
                if R != (1 << g):
                    self.viol("pow:x^0-not-1:%s" % fam, line, "pow(x, 0) = %d/2^%d" % (R, g))
                return
            if Y == one_s:
                if R != (X << (g - S.f)):
                    self.viol("pow:x^1-not-x:%s" % fam, line, "pow(x, 1) = %d/2^%d for x = %d/2^%d" % (R, g, X, S.f))
                return
            if X < 0:
                st.bump("negative_base_ok_not_judged")
                return
            true = mpmath.power(xv, yv)
            err = abs(rv - true)
            rel = TWO ** -18 + abs(yv * mpmath.log(xv)) * TWO ** -22 + 16 * abs(yv) * TWO ** -g
            bound = rel * true + 64 * ulp
            if rel < 1:
                self.note_err(fn, D, err, bound, line)
            if err > bound:
                self.viol("pow:inaccurate:%s" % fam, line, "pow(%s, %s) = %s, true %s, error/bound = %s" % (
                    mpmath.nstr(xv, 12), mpmath.nstr(yv, 12), mpmath.nstr(rv, 20), mpmath.nstr(true, 20), mpmath.nstr(err / bound, 8)))
        else:  # powi
            n = y - (1 << 32) if y >> 31 else y
            if X == 0:
                if R != 0:
                    self.viol("powi:0^n-not-0:%s" % fam, line, "powi(0, n) = %d" % R)
                return
            if n == 0:
                if R != (1 << g):
                    self.viol("powi:x^0-not-1:%s" % fam, line, "powi(x, 0) = %d" % R)
                return
            if n == 1:
                if R != (X << (g - S.f)):
                    self.viol("powi:x^1-not-x:%s" % fam, line, "powi(x, 1) = %d" % R)
                return
            if n > 0:
                an = n
                if an <= 512:
                    true = Fraction(X, 1 << S.f) ** an
                    err = abs(Fraction(R, 1 << g) - true)
                    scale = max(Fraction(1), abs(Fraction(X, 1 << S.f))) ** (an - 1)
                    bound = (an + 1) * Fraction(1, 1 << g) * scale
                else:
                    true = mpmath.power(xv, an)
                    err = abs(rv - true)
                    scale = mpmath.power(max(mpf(1), abs(xv)), an - 1)
                    bound = (an + 1) * ulp * scale
                self.note_err(fn, D, err, bound, line)
                if err > bound:
                    self.viol("powi:inaccurate:%s" % fam, line, "powi(x=%d/2^%d, %d) = %d/2^%d; error/bound = %s" % (
                        X, S.f, n, R, g, mpmath.nstr(mpf(err.numerator) / err.denominator / (mpf(bound.numerator) / bound.denominator), 8) if isinstance(err, Fraction) else mpmath.nstr(err / bound, 8)))
            else:
                if len(outs) < 4 or outs[2] == "-":
                    # n = i32::MIN: |n| = 2^31 is not an i32, so the reciprocal rule cannot be replayed through the
                    # library.  But for |x| >= 1 + 2^-16 the power x^(2^31) > e^(2^15) overflows every supported type,
                    # so powi(x, |n|) cannot be Ok and neither can its reciprocal.
                    if abs(X) >= (1 << S.f) + (1 << max(S.f - 16, 0)):
                        self.viol("powi:i32-min-ok-although-the-positive-power-overflows:%s" % fam, line,
                                  "powi(x, i32::MIN) = Ok(%d) for |x| > 1: x^(2^31) is not representable, so its reciprocal cannot be Ok" % R)
                    else:
                        st.bump("powi_i32_min_not_judged")
                    return
                k2, p2 = outcome(outs[2])
                if k2 != "ok":
                    self.viol("powi:negative-exponent-ok-but-positive-failed:%s" % fam, line,
                              "powi(x, %d) is Ok but powi(x, %d) is %s" % (n, -n, k2))
                    return
                P = D.val(p2)
                if P == 0:
                    self.viol("powi:reciprocal-of-zero:%s" % fam, line, "powi(x,%d)=Ok although powi(x,%d)=0" % (n, -n))
                    return
                q = trunc_div(1 << (2 * g), P)
                if not D.fits(q) or R != q:
                    self.viol("powi:not-truncated-reciprocal:%s" % fam, line,
                              "powi(x,%d) = %d but trunc(1/powi(x,%d)) = %d (fits=%s)" % (n, R, -n, q, D.fits(q)))

    # ------------------------------------------------------------------ C16
    def c16(self, line, fn, S, X, kind, res, fam):
        st = self.st
        st.checks += 1
        lim = 200 if fn != "tan" else 100
        if abs(X) > (lim << S.f):
            st.bump("outside_domain_not_judged")
            return
        xv = mpval(S, X)
        if fn == "tan":
            t = mpmath.tan(xv)
            if abs(t) > 64 - TWO ** -10:
                st.bump("tan_beyond_64_not_judged")
                return
        if kind != "val":
            st.bump("not_judged_" + kind)   # a panic here is C12's violation
            return
        rv = mpval(S, S.val(res))
        if fn == "tan":
            if abs(t) > 63.9:
                st.bump("tan_judged_within_0.1_of_the_domain_edge_64")
            err = abs(rv - t)
            bound = TWO ** -14 * (1 + t * t)
            self.note_err(fn, S, err, bound, line)
            if err > bound:
                self.viol("tan:inaccurate:%s" % fam, line, "tan(%s) = %s, true %s, error/bound = %s" % (
                    mpmath.nstr(xv, 15), mpmath.nstr(rv, 15), mpmath.nstr(t, 15), mpmath.nstr(err / bound, 8)))
            return
        true = mpmath.sin(xv) if fn == "sin" else mpmath.cos(xv)
        err = abs(rv - true)
        bound = TWO ** -16
        self.note_err(fn, S, err, bound, line)
        if err > bound:
            self.viol("%s:inaccurate:%s" % (fn, fam), line, "%s(%s) = %s, true %s, error = %s (allowed 2^-16)" % (
                fn, mpmath.nstr(xv, 15), mpmath.nstr(rv, 15), mpmath.nstr(true, 15), mpmath.nstr(err, 8)))
        if abs(rv) > 1 + TWO ** -16:
            self.viol("%s:out-of-range:%s" % (fn, fam), line, "result %s outside [-1-2^-16, 1+2^-16]" % mpmath.nstr(rv, 15))

    # ------------------------------------------------------------------ C17
    def c17(self, line, fn, S, D, X, kind, res, cnt, fam):
        st = self.st
        st.checks += 1
        # site 4 (powi's multiplication loop) is exempt only for powi itself (events of which never reach here):
        # another function that ends up in that loop is doing operand-dependent work
        total = sum(cnt)
        bound = 4 * D.n + 64
        k = "%s/%s" % (fn, D.name)
        m = self.maxiter.get(k)
        if m is None or total > m[0]:
            self.maxiter[k] = [total, line.strip()[:120]]
            st.extra["max_iterations"] = self.maxiter
        h = st.extra.setdefault("iteration_histogram", {})
        b = "%s:<=%d" % (fn, (total // 32 + 1) * 32)
        h[b] = h.get(b, 0) + 1
        if kind == "limit":
            self.viol("%s:iteration-limit:%s" % (fn, fam), line,
                      "aborted by the hook after %d loop iterations (bound %d, limit 16x): %s" % (total, bound, res))
        elif total > bound:
            self.viol("%s:too-many-iterations:%s" % (fn, fam), line, "%d loop iterations, bound 4*%d+64 = %d (per site %s)" % (total, D.n, bound, cnt))


def allowed_checked_panics(toks):
    """C11: sin/cos/tan have no overflow handling; outside the C12 domain a
    checked-profile panic is not flagged (position 0).  Everything else returns Result."""
    fn = toks[0]
    if fn in ("sin", "cos", "tan"):
        S = lay(toks[1])
        X = S.val(int(toks[3], 16))
        lim = 200 if fn != "tan" else 100
        if abs(X) > (lim << S.f):
            return {0}
        if fn == "tan":
            t = mpmath.tan(mpval(S, X))
            if abs(t) > 64 - TWO ** -10:
                return {0}
    return set()
