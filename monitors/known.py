"""Known findings: genuine defects of the pinned tree that are recorded rather
than repaired.  The list lives in /verif/known_findings.json (committed, never
written at run time).  An entry names a *coded predicate* below; a violation is
attributed to the finding only if the predicate holds for the exact event, so
any other deviation of the same property is still reported as VIOLATION.
Entries with status "fixed" are documentation only and suppress nothing.
"""
import json
import os

_HERE = os.path.dirname(os.path.abspath(__file__))
_FILE = os.path.join(_HERE, "..", "known_findings.json")

PREDICATES = {}


def predicate(name):
    def deco(fn):
        PREDICATES[name] = fn
        return fn
    return deco


_ENTRIES = None


def entries():
    global _ENTRIES
    if _ENTRIES is None:
        try:
            _ENTRIES = json.load(open(_FILE)).get("findings", [])
        except IOError:
            _ENTRIES = []
    return _ENTRIES


def match_known(prop, sig, line, detail, profile):
    for e in entries():
        if e.get("status") != "open":
            continue
        if prop not in e.get("properties", [e.get("property")]):
            continue
        fn = PREDICATES.get(e.get("predicate"))
        if fn is None:
            continue
        try:
            if fn(prop, sig, line, detail, profile):
                return e["id"]
        except Exception:
            pass
    return None


import known_preds  # noqa: E402,F401  (registers predicates)
