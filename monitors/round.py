"""C06 monitor: rounding methods against exact rational rounding.

  round a => for m in (ceil, floor, round, round_ties_to_even):
                 checked_m saturating_m wrapping_m overflowing_m m
             round_to_zero int frac
"""
from common import Stats, lay, opclass, panic_text

METHODS = ("ceil", "floor", "round", "round_ties_to_even")


def exact_int(L, A, m):
    """exact rounded integer (mathematical) of the value A/2^f"""
    f = L.f
    if f == 0:
        return A
    fl = A >> f            # floor
    rem = A - (fl << f)    # 0 <= rem < 2^f
    if m == "floor":
        return fl
    if m == "ceil":
        return fl + (1 if rem else 0)
    half = 1 << (f - 1)
    if m == "round":       # ties away from zero
        if rem > half:
            return fl + 1
        if rem < half:
            return fl
        return fl + 1 if A >= 0 else fl
    if m == "round_ties_to_even":
        if rem > half:
            return fl + 1
        if rem < half:
            return fl
        return fl + 1 if (fl & 1) else fl
    if m == "trunc":
        return fl if (A >= 0 or rem == 0) else fl + 1
    raise ValueError(m)


class Mon(object):
    def __init__(self, prop, profile):
        self.prop = prop
        self.profile = profile
        self.st = Stats(prop, profile)

    def event(self, line, toks):
        st = self.st
        L = lay(toks[1])
        a = int(toks[2], 16)
        outs = toks[4:]
        if len(outs) != 23:
            raise ValueError("token count")
        A = L.val(a)
        f = L.f
        frac = A & ((1 << f) - 1)
        half = (1 << (f - 1)) if f else 0
        fc = "int" if frac == 0 else ("tie" if frac == half else ("lo" if frac < half else "hi"))
        ocs = []
        k = 0
        for m in METHODS:
            I = exact_int(L, A, m)
            R = I << f
            fits = L.fits(R)
            ocs.append("f" if fits else "o")
            w = "%x" % (R & L.mask)
            exps = ("S:" + w if fits else "N",
                    "V:%x" % (L.clamp(R) & L.mask),
                    "V:" + w,
                    "O:%s:%d" % (w, 0 if fits else 1),
                    ("V:" + w) if fits else None)
            names = ("checked_", "saturating_", "wrapping_", "overflowing_", "")
            for j in range(5):
                t = outs[k + j]
                exp = exps[j]
                st.checks += 1
                if exp is None:
                    continue
                if t != exp:
                    name = names[j] + m
                    if t[0] == "P":
                        st.violation("C06:%s:panic:%s" % (name, L.family()), line,
                                     "panicked (%s); exact integer %d fits=%s expected %s" % (panic_text(t), I, fits, exp))
                    else:
                        st.violation("C06:%s:wrong:%s" % (name, L.family()), line,
                                     "got %s expected %s (exact integer %d, fits=%s, value bits %d, f=%d)" % (t, exp, I, fits, A, f))
            k += 5
        # round_to_zero: always representable
        I = exact_int(L, A, "trunc")
        exp = "V:%x" % ((I << f) & L.mask)
        st.checks += 1
        if outs[20] != exp:
            st.violation("C06:round_to_zero:%s:%s" % ("panic" if outs[20][0] == "P" else "wrong", L.family()), line,
                         "got %s expected %s" % (outs[20], exp))
        # int / frac: only pinned down when the type has an integer bit
        if L.n - f >= 1:
            fl = A >> f
            ei = "V:%x" % ((fl << f) & L.mask)
            ef = "V:%x" % (frac & L.mask)
            st.checks += 2
            if outs[21] != ei:
                st.violation("C06:int:%s:%s" % ("panic" if outs[21][0] == "P" else "wrong", L.family()), line,
                             "got %s expected %s" % (outs[21], ei))
            if outs[22] != ef:
                st.violation("C06:frac:%s:%s" % ("panic" if outs[22][0] == "P" else "wrong", L.family()), line,
                             "got %s expected %s" % (outs[22], ef))
        else:
            for t in outs[21:23]:
                if t[0] == "P":
                    st.violation("C06:int_frac:panic:%s" % L.family(), line, "panicked (%s)" % panic_text(t))
        ca = opclass(L, a)
        st.cover(L.name, "round", (ca, fc, "".join(ocs)), ca != "0" and fc != "int", line)


def allowed_checked_panics(toks):
    L = lay(toks[1])
    A = L.val(int(toks[2], 16))
    s = set()
    for k, m in enumerate(METHODS):
        if not L.fits(exact_int(L, A, m) << L.f):
            s.add(5 * k + 4)
    return s
