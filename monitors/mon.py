#!/usr/bin/env python3
"""usage: mon.py <module> <property> <profile>   (events on stdin, JSON result on stdout)"""
import importlib
import os
import sys

sys.path.insert(0, os.path.dirname(os.path.abspath(__file__)))
from common import run_monitor  # noqa: E402

if __name__ == "__main__":
    mod = importlib.import_module(sys.argv[1])
    mon = mod.Mon(sys.argv[2], sys.argv[3], *sys.argv[4:])
    run_monitor(mon)
