"""C03 monitor: comparisons against the ordering of the exact values.

Comparison tokens are `C:` + six characters (== != < <= > >= as 0/1) + the
partial_cmp result (l e g n).  Consumed events:
  fi L s m a i => ... C:(x ? i) C:(i ? x)          integers
  ff Ls Ld a b => ... C:(s ? d) C:(d ? s)          other fixed-point layouts (b = the D operand)
  fc Ls Ld a b => C:(s ? d) C:(d ? s)              comparison-only cross-type events
  fs L a b     => C:(a ? b) C:cmp/max/min T:hash(x) T:hash(bits)    same type
  fl L w a fbits => ... C:(x ? f) C:(f ? x)        floats (w = 32|64)
"""
from fractions import Fraction
from common import Stats, lay, opclass, panic_text
from floats import decode_float


def expect_cmp(x, y):
    """x, y exact rationals (or None for NaN, '+inf', '-inf')"""
    if x is None or y is None:
        return "010000n"
    if isinstance(x, str) or isinstance(y, str):
        def key(v):
            return (1, 0) if v == "+inf" else ((-1, 0) if v == "-inf" else (0, v))
        kx, ky = key(x), key(y)
        lt, gt = kx < ky, kx > ky
    else:
        lt, gt = x < y, x > y
    if lt:
        return "011100l"
    if gt:
        return "010011g"
    return "100101e"


def swap(s):
    """expected token for the reversed operand order"""
    return {"011100l": "010011g", "010011g": "011100l"}.get(s, s)


class Mon(object):
    def __init__(self, prop, profile):
        self.prop = prop
        self.profile = profile
        self.st = Stats(prop, profile)

    def judge(self, line, what, fam, x, y, fwd, rev):
        st = self.st
        e = expect_cmp(x, y)
        for name, exp, t in (("fwd", e, fwd), ("rev", swap(e), rev)):
            st.checks += 1
            if t[0] == "P":
                st.violation("C03:%s:%s:panic:%s" % (what, name, fam), line, "comparison panicked: %s" % panic_text(t))
            elif t[2:] != exp:
                # which of the seven results deviates
                bad = [n for n, a, b in zip(("eq", "ne", "lt", "le", "gt", "ge", "partial_cmp"), t[2:], exp) if a != b]
                st.violation("C03:%s:%s:wrong:%s" % (what, name, fam), line,
                             "got %s expected %s (deviating: %s)" % (t[2:], exp, ",".join(bad)))
        return e

    def event(self, line, toks):
        st = self.st
        op = toks[0]
        if op == "fi":
            L = lay(toks[1])
            isigned = toks[2] == "i"
            m = int(toks[3], 16)
            a = int(toks[4], 16)
            ib = int(toks[5], 16)
            A = L.val(a)
            iv = ib - (1 << m) if (isigned and ib >> (m - 1)) else ib
            fam = "%s?%s%d" % (L.family(), toks[2], m)
            e = self.judge(line, "int", fam, A, iv << L.f, toks[-2], toks[-1])
            rng = "in" if L.fits(iv << L.f) else ("2x" if L.fits(iv << L.f >> 1) or L.fits((iv << L.f) // 2) else "far")
            st.cover(L.name, "cmp:" + toks[2] + str(m), (opclass(L, a), e[-1], rng), a != 0 and ib != 0, line)
        elif op in ("ff", "fc"):
            S = lay(toks[1])
            D = lay(toks[2])
            a = int(toks[3], 16)
            b = int(toks[4], 16)
            A = S.val(a)
            B = D.val(b)
            # compare A/2^fs with B/2^fd
            x = A << D.f
            y = B << S.f
            fam = "%s?%s" % (S.family(), D.family())
            e = self.judge(line, "fixed", fam, x, y, toks[-2], toks[-1])
            # is the rhs representable in the lhs layout?  (the lost-bits / overflow corners)
            sh = S.f - D.f
            r = (B << sh) if sh >= 0 else (B >> -sh)
            lost = sh < 0 and (B & ((1 << -sh) - 1)) != 0
            cls = ("in" if S.fits(r) else "ovf") + ("L" if lost else "")
            st.cover(S.name + "?" + D.name, "cmpff", (opclass(S, a), e[-1], cls), a != 0 and b != 0, line)
        elif op == "fs":
            L = lay(toks[1])
            a = int(toks[2], 16)
            b = int(toks[3], 16)
            A = L.val(a)
            B = L.val(b)
            outs = toks[5:]
            e = expect_cmp(A, B)
            st.checks += 3
            if outs[0][0] == "P" or outs[0][2:] != e:
                st.violation("C03:same:ops:%s" % L.family(), line, "got %s expected %s" % (outs[0], e))
            ec = e[-1] + "11----"
            if outs[1][0] == "P" or outs[1][2:] != ec:
                st.violation("C03:same:cmp_max_min:%s" % L.family(), line, "got %s expected %s" % (outs[1], ec))
            if outs[2][0] == "P" or len(outs) < 4 or outs[2] != outs[3]:
                st.violation("C03:same:hash:%s" % L.family(), line, "Hash stream of the value differs from that of its bits: %s" % " ".join(outs[2:]))
            else:
                # independent expectation: native-endian bytes of the bit pattern
                exp = "T:" + a.to_bytes(L.n // 8, "little").hex()
                if outs[2] != exp:
                    st.violation("C03:same:hash-bytes:%s" % L.family(), line, "got %s expected %s" % (outs[2], exp))
            st.cover(L.name, "cmpsame", (opclass(L, a), e[-1]), a != 0 and b != 0, line)
        elif op == "fl":
            L = lay(toks[1])
            w = int(toks[2])
            a = int(toks[3], 16)
            fb = int(toks[4], 16)
            A = L.val(a)
            kind, val = decode_float(w, fb)
            x = Fraction(A, 1 << L.f)
            if kind == "nan":
                y = None
            elif kind == "inf":
                y = "+inf" if val > 0 else "-inf"
            else:
                y = val
            fam = "%s?f%d" % (L.family(), w)
            e = self.judge(line, "float", fam, x, y, toks[-2], toks[-1])
            from floats import float_class
            st.cover(L.name, "cmpf%d" % w, (opclass(L, a), float_class(w, fb), e[-1]), a != 0, line)
