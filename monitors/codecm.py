"""C10 monitor: SCALE encoding, byte views and serde form vs the integer's own
little-endian bytes.

  cd L a => T:encode T:using_encoded T:encode_to T:(x,7u8).encode V:encoded_size V:max_encoded_len T:bits.encode K:decode(le bytes)
            B:all-proper-prefixes-fail K:decode(le++junk):remaining==3
            T:to_le T:to_be T:to_ne V:from_le V:from_be V:from_ne V:from_bits
            T:json K:from_json T:serialize-call-trace T:wrapping-call-trace K:from_json_seq T:wrapping_json K:wrapping_from_json
            T:calls-made-on-a-non-self-describing-deserializer K:from_field_seq K:wrapping_from_field_seq
"""
from common import Stats, lay, opclass, panic_text, unhex

NAMES = ("encode", "using_encoded", "encode_to", "tuple_embedding", "encoded_size", "max_encoded_len", "bits_encode", "decode", "short_input_fails", "decode_with_trailing",
         "to_le_bytes", "to_be_bytes", "to_ne_bytes", "from_le_bytes", "from_be_bytes", "from_ne_bytes", "from_bits",
         "serde_json", "serde_from_json", "serde_call_trace", "wrapping_serde_call_trace", "serde_from_seq",
         "wrapping_serde_json", "wrapping_serde_from_json", "serde_fieldseq_calls", "serde_from_fieldseq", "wrapping_serde_from_fieldseq")


class Mon(object):
    def __init__(self, prop, profile):
        self.prop = prop
        self.profile = profile
        self.st = Stats(prop, profile)

    def event(self, line, toks):
        st = self.st
        if toks[0] != "cd":
            return
        L = lay(toks[1])
        a = int(toks[2], 16)
        outs = toks[4:]
        nb = L.n // 8
        le = a.to_bytes(nb, "little").hex()
        be = a.to_bytes(nb, "big").hex()
        js = ('{"bits":%d}' % L.val(a)).encode().hex()
        ah = "%x" % a
        exp = ["T:" + le, "T:" + le, "T:" + le, "T:" + le + "07", "V:%x" % nb, "V:%x" % nb, "T:" + le, "K:" + ah, "B:1", "K:%s:1" % ah,
               "T:" + le, "T:" + be, "T:" + le, "V:" + ah, "V:" + ah, "V:" + ah, "V:" + ah,
               "T:" + js, "K:" + ah, None, None, "K:" + ah, "T:" + js, "K:" + ah, "INFO", "K:" + ah, "K:" + ah]
        if len(outs) != len(exp):
            # a group collapsed to one panic token shifts positions: report it as such
            for t in outs:
                if t[0] == "P":
                    st.violation("C10:panic:%s" % L.family(), line, "panicked: %s" % panic_text(t))
                    return
            raise ValueError("token count %d" % len(outs))
        for name, e, t in zip(NAMES, exp, outs):
            st.checks += 1
            if e == "INFO":
                # the calls Deserialize made on the non-self-describing deserializer: shown in the witness, judged by the
                # two outcome tokens that follow (the value must come back; which struct-like hint is used is free)
                if t[0] == "P":
                    st.violation("C10:%s:panic:%s" % (name, L.family()), line, "panicked: %s" % panic_text(t))
                continue
            if e is None:
                # recorded Serializer calls: a one-field struct (declared length 1) whose field `bits` is the integer;
                # the struct's name is not pinned down by the property
                import re
                txt = unhex(t[2:]).decode() if t[0] == "T" else panic_text(t)
                m = re.match(r"^struct\(\w+,declared_len=1\) field\(bits=int:(-?\d+)\) end$", txt)
                if t[0] != "T" or not m or int(m.group(1)) != L.val(a):
                    st.violation("C10:%s:%s:%s" % (name, "panic" if t[0] == "P" else "wrong", L.family()), line,
                                 "Serialize made the calls %r; expected struct(<name>,declared_len=1) field(bits=int:%d) end" % (txt, L.val(a)))
                continue
            if t != e:
                if t[0] == "P":
                    st.violation("C10:%s:panic:%s" % (name, L.family()), line, "panicked: %s" % panic_text(t))
                else:
                    got = t
                    if t[0] == "T" and name.startswith(("serde", "wrapping")):
                        got = "T:" + repr(unhex(t[2:]))
                    st.violation("C10:%s:wrong:%s" % (name, L.family()), line, "got %s expected %s" % (got, e if e[0] != "T" or not name.startswith(("serde", "wrapping")) else repr(unhex(e[2:]))))
        st.cover(L.name, "cd", (opclass(L, a),), a != 0, line)
