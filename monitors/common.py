"""Shared monitor infrastructure: layouts, exact helpers, statistics, verdicts.

A monitor reads event lines (one API call group per line, written by a Rust
driver that only calls the library and logs what came back) and judges each one
against an exact reference model.  Verdicts are three-valued; this module only
collects them, `bin/vcheck` turns them into exit codes.
"""
import json
import sys
import time

# ----------------------------------------------------------------- layouts

_LAY = {}


class Lay(object):
    __slots__ = ("signed", "n", "f", "mask", "lo", "hi", "name", "sbit", "one")

    def __init__(self, name):
        self.name = name
        self.signed = name[0] == "i"
        n, f = name[1:].split(".")
        self.n = int(n)
        self.f = int(f)
        self.mask = (1 << self.n) - 1
        self.sbit = 1 << (self.n - 1)
        if self.signed:
            self.lo = -(1 << (self.n - 1))
            self.hi = (1 << (self.n - 1)) - 1
        else:
            self.lo = 0
            self.hi = self.mask
        self.one = 1 << self.f

    def val(self, bits):
        """raw signed integer of a bit pattern"""
        if self.signed and bits & self.sbit:
            return bits - (1 << self.n)
        return bits

    def fits(self, r):
        return self.lo <= r <= self.hi

    def wrap(self, r):
        """exact raw integer -> bit pattern modulo 2^n"""
        return r & self.mask

    def clamp(self, r):
        return self.lo if r < self.lo else (self.hi if r > self.hi else r)

    def int_bits(self):
        return self.n - self.f

    def family(self):
        return "%s%d" % ("i" if self.signed else "u", self.n)


def lay(name):
    l = _LAY.get(name)
    if l is None:
        l = _LAY[name] = Lay(name)
    return l


def trunc_div(a, b):
    """integer division truncating toward zero"""
    q = abs(a) // abs(b)
    return -q if (a < 0) != (b < 0) else q


def unhex(s):
    if s == "-":
        return b""
    return bytes.fromhex(s)


def panic_text(tok):
    """decode a P: token -> 'file:line|message'"""
    try:
        return unhex(tok[2:]).decode("utf-8", "replace")
    except Exception:
        return tok


def opclass(L, bits):
    """coarse operand class for coverage cells"""
    if bits == 0:
        return "0"
    if bits == L.mask:
        return "ones"
    if L.signed and bits == L.sbit:
        return "min"
    if bits == L.hi & L.mask and L.signed:
        return "max"
    if bits == 1:
        return "ulp"
    if L.f < L.n and bits == L.one:
        return "one"
    v = L.val(bits)
    a = abs(v)
    if a & (a - 1) == 0:
        return "p2" if v > 0 else "-p2"
    h = L.n // 2
    if a < (1 << h):
        return "sm" if v > 0 else "-sm"
    return "lg" if v > 0 else "-lg"


TRIVIAL_CLASSES = ("0", "one")

# ----------------------------------------------------------------- statistics

MAX_VIOL_KEPT = 40
MAX_SAMPLES = 12


class Stats(object):
    """what one monitor process observed"""

    def __init__(self, prop, profile):
        self.prop = prop
        self.profile = profile
        self.evaluations = 0
        self.cells = set()            # non-trivial coverage cells
        self.all_cells = set()
        self.layouts = set()
        self.ops = {}                 # op -> count
        self.outcomes = {}            # (op, outcome class) -> count
        self.samples = []
        self.rare_samples = {}
        self.violations = {}          # signature -> dict(count, line, detail)
        self.nviol = 0
        self.known = {}               # finding id -> dict(count, line)
        self.extra = {}
        self.checks = 0               # individual outcome tokens compared
        self.t0 = time.time()

    def cover(self, lay_name, op, cell, nontrivial, line):
        self.evaluations += 1
        self.layouts.add(lay_name)
        self.ops[op] = self.ops.get(op, 0) + 1
        key = (lay_name, op) + cell
        if key not in self.all_cells:
            self.all_cells.add(key)
            if len(self.samples) < MAX_SAMPLES and (len(self.all_cells) % 97 == 1):
                self.samples.append(line.strip())
        if nontrivial:
            self.cells.add(key)
        ok = (op, cell[-1] if cell else "")
        self.outcomes[ok] = self.outcomes.get(ok, 0) + 1

    def violation(self, sig, line, detail):
        """record a violation unless it matches a listed known finding"""
        from known import match_known
        kid = match_known(self.prop, sig, line, detail, self.profile)
        if kid is not None:
            k = self.known.get(kid)
            if k is None:
                self.known[kid] = {"count": 1, "line": line.strip(), "detail": detail}
            else:
                k["count"] += 1
            return
        self.nviol += 1
        v = self.violations.get(sig)
        if v is None:
            if len(self.violations) < MAX_VIOL_KEPT:
                self.violations[sig] = {"count": 1, "line": line.strip(), "detail": detail}
        else:
            v["count"] += 1

    def bump(self, key, n=1):
        self.extra[key] = self.extra.get(key, 0) + n

    def result(self):
        return {
            "prop": self.prop,
            "profile": self.profile,
            "evaluations": self.evaluations,
            "checks": self.checks,
            "cells": sorted("|".join(map(str, c)) for c in self.cells),
            "n_all_cells": len(self.all_cells),
            "layouts": sorted(self.layouts),
            "ops": self.ops,
            "outcomes": {"%s/%s" % k: v for k, v in self.outcomes.items()},
            "samples": self.samples,
            "violations": self.violations,
            "nviol": self.nviol,
            "known": self.known,
            "extra": self.extra,
            "cpu_s": time.time() - self.t0,
        }


def run_monitor(mon):
    """stream stdin through mon.event(line, toks); print the JSON result"""
    ev = mon.event
    n_bad = 0
    for line in sys.stdin:
        toks = line.split()
        if not toks:
            continue
        if toks[0][0] == "#":
            if toks[0] == "#sweep":
                # summary of an exhaustive in-driver sweep: how many patterns were executed
                kv = dict(t.split("=", 1) for t in toks[2:] if "=" in t)
                ex = mon.st.extra
                ex["sweep_patterns_executed"] = ex.get("sweep_patterns_executed", 0) + int(kv.get("scanned", 0))
                ex["sweep_events_logged_for_exact_oracle"] = ex.get("sweep_events_logged_for_exact_oracle", 0) + int(kv.get("logged", 0))
                d = ex.setdefault("sweep_per_function", {})
                k = "%s/%s" % (toks[1], kv.get("ty", "?"))
                d[k] = d.get(k, 0) + int(kv.get("scanned", 0))
                mi = ex.setdefault("max_sweep_iterations", {})
                mi[k] = max(mi.get(k, 0), int(kv.get("max_iterations", 0)))
            continue
        try:
            ev(line, toks)
        except Exception as e:  # a monitor bug or a malformed line is not a verdict
            n_bad += 1
            if n_bad <= 3:
                sys.stderr.write("MONITOR-ERROR %s on line: %s\n" % (repr(e), line))
                import traceback
                traceback.print_exc()
    res = mon.st.result()
    res["monitor_errors"] = n_bad
    sys.stdout.write(json.dumps(res))
    sys.stdout.write("\n")
