"""C08 monitor: parsing against the exact rational value of the literal.

  ps L radix lit => from_str* saturating_from_str* wrapping_from_str* overflowing_from_str* Wrapping::from_str*
outcomes: K:<bits>[:flag] = Ok, E:<hex Display text> = Err, P: = panic.
"""
from fractions import Fraction
from common import Stats, lay, panic_text, unhex

DIGITS = {c: i for i, c in enumerate("0123456789abcdef")}
DIGITS.update({c: i for i, c in enumerate("0123456789ABCDEF")})
NAMES = ("from_str", "saturating_from_str", "wrapping_from_str", "overflowing_from_str", "Wrapping::from_str")
OVERFLOW_MSG = "overflow"


def parse_literal(text, radix):
    """grammar [+-]? digits* ( . digits* )? with >= 1 digit (ASCII only)
    -> (neg, numerator, radix^k denominator exponent) or None if malformed"""
    i = 0
    n = len(text)
    neg = False
    if i < n and text[i] in "+-":
        neg = text[i] == "-"
        i += 1
    num = 0
    nd = 0
    fd = 0
    seen_point = False
    while i < n:
        c = text[i]
        if c == ".":
            if seen_point:
                return None
            seen_point = True
        else:
            d = DIGITS.get(c)
            if d is None or d >= radix:
                return None
            num = num * radix + d
            nd += 1
            if seen_point:
                fd += 1
        i += 1
    if nd == 0:
        return None
    return neg, num, fd


def round_half_even_div(num, den):
    q, r = divmod(num, den)
    if 2 * r > den or (2 * r == den and (q & 1)):
        q += 1
    return q


def exact_parse(L, text, radix):
    """-> None (malformed) or rounded raw integer R (unbounded)"""
    p = parse_literal(text, radix)
    if p is None:
        return None
    neg, num, fd = p
    # |value| * 2^f = num * 2^f / radix^fd, round half even on the signed value
    # (ties-to-even is symmetric, so rounding the magnitude and negating is the same)
    R = round_half_even_div(num << L.f, radix ** fd)
    return -R if neg else R


def classify(L, text, radix):
    p = parse_literal(text, radix)
    if p is None:
        return "malformed"
    neg, num, fd = p
    den = radix ** fd
    sc = Fraction(num << L.f, den)
    if sc.denominator == 1:
        return "grid"
    if sc.denominator == 2:
        return "tie"
    # distance to the nearest tie in units of ulp
    fr = sc - (sc.numerator // sc.denominator)
    d = abs(fr - Fraction(1, 2))
    if d < Fraction(1, 10 ** 12):
        return "hair-from-tie"
    if d < Fraction(1, 1000):
        return "near-tie"
    return "generic"


class Mon(object):
    def __init__(self, prop, profile):
        self.prop = prop
        self.profile = profile
        self.st = Stats(prop, profile)

    def event(self, line, toks):
        st = self.st
        if toks[0] != "ps":
            return
        L = lay(toks[1])
        radix = int(toks[2], 16)
        raw = unhex(toks[3])
        text = raw.decode("utf-8")
        outs = toks[5:]
        if len(outs) != 5:
            raise ValueError("token count")
        prop = self.prop
        R = exact_parse(L, text, radix)
        cls = classify(L, text, radix)
        fam = "%s/r%d" % (L.family(), radix)
        ndig = sum(1 for c in text if c in DIGITS)
        lenclass = "d<=%d" % (8 if ndig <= 8 else 20 if ndig <= 20 else 40 if ndig <= 40 else 80 if ndig <= 80 else 999)
        if R is None:
            oc = "malformed"
            for name, t in zip(NAMES, outs):
                st.checks += 1
                if prop == "C18" and name != "Wrapping::from_str":
                    continue
                if prop == "C08" and name == "Wrapping::from_str":
                    continue
                if t[0] == "P":
                    st.violation("%s:%s:panic-on-malformed:%s" % (prop, name, fam), line, "panicked on %r: %s" % (text, panic_text(t)))
                elif t[0] != "E":
                    st.violation("%s:%s:malformed-accepted:%s" % (prop, name, fam), line, "accepted the malformed literal %r: %s" % (text, t))
                elif unhex(t[2:]).decode() == OVERFLOW_MSG:
                    st.violation("%s:%s:malformed-reported-as-overflow:%s" % (prop, name, fam), line, "%r" % text)
        else:
            fits = L.fits(R)
            oc = "fits" if fits else ("over+" if R > L.hi else "over-")
            w = "%x" % (R & L.mask)
            exps = (("K:" + w) if fits else "E:overflow",
                    "K:%x" % (L.clamp(R) & L.mask),
                    "K:" + w,
                    "K:%s:%d" % (w, 0 if fits else 1),
                    "K:" + w)
            for name, exp, t in zip(NAMES, exps, outs):
                st.checks += 1
                if prop == "C18" and name != "Wrapping::from_str":
                    continue
                if prop == "C08" and name == "Wrapping::from_str":
                    continue
                got = t
                if t[0] == "E":
                    got = "E:" + unhex(t[2:]).decode()
                if got != exp:
                    if t[0] == "P":
                        st.violation("%s:%s:panic:%s" % (prop, name, fam), line, "panicked on %r: %s" % (text, panic_text(t)))
                    else:
                        st.violation("%s:%s:wrong:%s:%s" % (prop, name, cls, fam), line,
                                     "literal %r (radix %d): got %s expected %s (exact rounded raw %d, fits=%s, class %s)" % (
                                         text[:120], radix, got, exp, R, fits, cls))
        st.cover(L.name, "ps%d" % radix, (cls, oc, lenclass, "neg" if text.startswith("-") else "pos"), cls not in ("malformed",) and R != 0, line)
