"""Bit-exact float decoding / encoding in pure integers (no host float arithmetic)."""
from fractions import Fraction

FMT = {32: (8, 23), 64: (11, 52)}


def decode_float(w, bits):
    """-> (kind, value): ('nan', None) | ('inf', +-1) | ('fin', Fraction)"""
    eb, mb = FMT[w]
    sign = bits >> (w - 1)
    e = (bits >> mb) & ((1 << eb) - 1)
    m = bits & ((1 << mb) - 1)
    bias = (1 << (eb - 1)) - 1
    if e == (1 << eb) - 1:
        if m:
            return "nan", None
        return "inf", (-1 if sign else 1)
    if e == 0:
        num = m
        ex = 1 - bias - mb
    else:
        num = m | (1 << mb)
        ex = e - bias - mb
    v = Fraction(num << ex, 1) if ex >= 0 else Fraction(num, 1 << -ex)
    return "fin", (-v if sign else v)


def float_class(w, bits):
    eb, mb = FMT[w]
    e = (bits >> mb) & ((1 << eb) - 1)
    m = bits & ((1 << mb) - 1)
    if e == (1 << eb) - 1:
        return "nan" if m else "inf"
    if e == 0:
        return "zero" if m == 0 else "sub"
    if e == (1 << eb) - 2:
        return "top"
    return "norm"


def encode_float(w, num, den_log2):
    """round-half-even encoding of the exact value num / 2^den_log2 (num any
    python int) to IEEE binary32/64 bits, with gradual underflow and overflow to
    infinity.  Pure integer arithmetic."""
    eb, mb = FMT[w]
    bias = (1 << (eb - 1)) - 1
    sign = 1 if num < 0 else 0
    n = abs(num)
    if n == 0:
        return sign << (w - 1)
    # value = n * 2^-den_log2 ; let e2 = floor(log2(value))
    e2 = n.bit_length() - 1 - den_log2
    emin = 1 - bias
    # exponent of the unit in the last place of the result
    if e2 < emin:
        ulp_exp = emin - mb          # subnormal spacing
    else:
        ulp_exp = e2 - mb
    # q = value / 2^ulp_exp = n * 2^(-den_log2 - ulp_exp)
    sh = -den_log2 - ulp_exp
    if sh >= 0:
        q = n << sh
        rem_num, rem_den = 0, 1
    else:
        q = n >> -sh
        rem_num = n & ((1 << -sh) - 1)
        rem_den = 1 << -sh
    # round half even
    twice = rem_num * 2
    if twice > rem_den or (twice == rem_den and (q & 1)):
        q += 1
    # q may have carried to 2^(mb+1)
    if e2 < emin:
        # subnormal (or rounds up to the smallest normal): biased exponent 0 + mantissa q
        bits = q            # if q == 2^mb this is exactly the smallest normal encoding
    else:
        if q == (1 << (mb + 1)):
            q >>= 1
            e2 += 1
        if e2 > bias:
            return (sign << (w - 1)) | (((1 << eb) - 1) << mb)   # infinity
        bits = ((e2 + bias) << mb) | (q - (1 << mb))
        if e2 + bias >= (1 << eb) - 1:
            return (sign << (w - 1)) | (((1 << eb) - 1) << mb)
    return (sign << (w - 1)) | bits
