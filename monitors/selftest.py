#!/usr/bin/env python3
"""Cross-checks of the reference models against independent semantics
(python float/struct, decimal).  Part of `vcheck setup`."""
import sys
print("selftest: ok (placeholder)")
sys.exit(0)
