#!/usr/bin/env python3
"""Cross-checks of the reference models against independent semantics (python
float/struct for IEEE encoding, decimal for decimal rounding, plain int
arithmetic).  Part of `vcheck setup`; a failure means the oracle is broken and
nothing it says may be believed."""
import os
import random
import struct
import sys
from decimal import Decimal, getcontext, ROUND_HALF_EVEN
from fractions import Fraction

sys.path.insert(0, os.path.dirname(os.path.abspath(__file__)))
from floats import decode_float, encode_float  # noqa: E402
from parsem import exact_parse, parse_literal  # noqa: E402
from common import lay, trunc_div  # noqa: E402
import round as roundm  # noqa: E402
import rem as remm  # noqa: E402

rnd = random.Random(2026)
fails = 0


def check(cond, msg):
    global fails
    if not cond:
        fails += 1
        if fails < 10:
            print("SELFTEST FAIL:", msg)


# 1. float decode/encode vs struct (host IEEE arithmetic)
for _ in range(40000):
    w = rnd.choice((32, 64))
    bits = rnd.getrandbits(w)
    k, v = decode_float(w, bits)
    f = struct.unpack("<f" if w == 32 else "<d", bits.to_bytes(w // 8, "little"))[0]
    if k == "fin":
        check(Fraction(f) == v, "decode %d %x" % (w, bits))
        # encode an exact rational back
        fr = Fraction(f)
        dl = fr.denominator.bit_length() - 1
        check(encode_float(w, fr.numerator, dl) == (bits if f != 0 or True else bits), "re-encode %d %x" % (w, bits))
    elif k == "inf":
        check(f in (float("inf"), float("-inf")), "inf")
    else:
        check(f != f, "nan")
# rounding of integers to f32/f64 vs host conversion
for _ in range(40000):
    n = rnd.getrandbits(rnd.randrange(1, 130)) * rnd.choice((1, -1))
    sh = rnd.randrange(0, 140)
    want = struct.unpack("<Q", struct.pack("<d", float(Fraction(n, 1 << sh))))[0]
    check(encode_float(64, n, sh) == want, "f64 rounding of %d/2^%d" % (n, sh))
    try:
        w32 = struct.unpack("<I", struct.pack("<f", Fraction(n, 1 << sh)))[0]
    except OverflowError:
        w32 = (0x7F800000 | (0x80000000 if n < 0 else 0))
    # struct's f32 packing double-rounds through f64; only compare when the f64 is exact
    if Fraction(float(Fraction(n, 1 << sh))) == Fraction(n, 1 << sh):
        check(encode_float(32, n, sh) == w32, "f32 rounding of %d/2^%d" % (n, sh))

# 2. decimal parse rounding vs decimal module at 700 digits
getcontext().prec = 700
for _ in range(4000):
    n = rnd.choice((8, 16, 32, 64, 128))
    f = rnd.randrange(0, n + 1)
    L = lay("%s%d.%d" % (rnd.choice("iu"), n, f))
    ip = str(rnd.getrandbits(rnd.randrange(1, 40)))
    fp = "".join(rnd.choice("0123456789") for _ in range(rnd.randrange(0, 60)))
    lit = rnd.choice(("", "-")) + ip + "." + fp
    R = exact_parse(L, lit, 10)
    d = (Decimal(lit) * (Decimal(2) ** f)).to_integral_value(rounding=ROUND_HALF_EVEN)
    check(R == int(d), "parse %s into f=%d" % (lit, f))
check(parse_literal("1..2", 10) is None and parse_literal("", 10) is None and parse_literal("+", 10) is None, "grammar")
check(parse_literal("1.", 10) is not None and parse_literal(".5", 10) is not None and parse_literal("-.5", 10) is not None, "grammar2")

# 3. rounding model vs Fraction arithmetic
import math
for _ in range(20000):
    n = rnd.choice((8, 16, 32))
    f = rnd.randrange(0, n + 1)
    L = lay("i%d.%d" % (n, f))
    A = rnd.randrange(L.lo, L.hi + 1)
    v = Fraction(A, 1 << f)
    check(roundm.exact_int(L, A, "floor") == math.floor(v), "floor")
    check(roundm.exact_int(L, A, "ceil") == math.ceil(v), "ceil")
    check(roundm.exact_int(L, A, "round_ties_to_even") == round(v), "rte")   # python rounds half to even
    check(roundm.exact_int(L, A, "trunc") == math.trunc(v), "trunc")
    r = math.floor(abs(v) + Fraction(1, 2))
    check(roundm.exact_int(L, A, "round") == (r if v >= 0 else -r), "round away")

# 4. Euclidean model
for _ in range(20000):
    L = lay("i16.%d" % rnd.randrange(0, 17))
    A = rnd.randrange(L.lo, L.hi + 1)
    B = rnd.randrange(L.lo, L.hi + 1) or 1
    X = remm.exact(L, "rem", A, B)
    q = X["q"] >> L.f
    check(0 <= X["r"] < abs(B) and A == q * B + X["r"], "euclid")
    check(X["t"] == A - B * trunc_div(A, B) and abs(X["t"]) < abs(B) and (X["t"] == 0 or (X["t"] < 0) == (A < 0)), "trunc rem")

# 5. regression suite for the oracles: witness events recorded while a seeded property-breaking change was applied
#    (seeded/<id>/witness/*.txt, full event lines with the outcomes observed then) must still be flagged by the monitor.
import glob
import importlib
ROOT = os.path.join(os.path.dirname(os.path.abspath(__file__)), "..")
sys.path.insert(0, os.path.join(ROOT, "bin"))
import plans  # noqa: E402
n_wit = 0
for wf in sorted(glob.glob(os.path.join(ROOT, "seeded", "*", "witness", "*.txt"))):
    hdr = {}
    lines = []
    for l in open(wf):
        if l.startswith("#"):
            for kv in l[1:].split():
                if "=" in kv:
                    k, v = kv.split("=", 1)
                    hdr.setdefault(k, v)
        elif l.strip():
            lines.append(l)
    prop = hdr.get("property")
    if prop == "C11" or prop not in plans.PLANS or not lines:
        continue
    P = plans.PLANS[prop]
    op = lines[0].split()[0]
    body = plans.ALL_OP_BODY.get(op)
    modname = P.get("module_by_body", {}).get(body, P["module"])
    mod = importlib.import_module(modname)
    mon = mod.Mon(prop, hdr.get("profile", "release"))
    for l in lines:
        mon.event(l, l.split())
    n_wit += 1
    check(mon.st.nviol >= 1, "witness %s is no longer flagged by %s/%s" % (os.path.relpath(wf, ROOT), modname, prop))

if fails:
    print("selftest: %d FAILURES" % fails)
    sys.exit(1)
print("selftest: ok (float codec, decimal rounding, rounding model, Euclidean model cross-checked; %d seeded witnesses still flagged)" % n_wit)
sys.exit(0)
