"""C07 monitor: remainders and Euclidean division against exact integer
Euclidean division of the raw bits.

  rem a b     => %  %=  checked_rem  rem_euclid  checked_rem_euclid
                 div_euclid checked_ saturating_ wrapping_ overflowing_div_euclid
  rem_int a i => %  %=  checked_rem_int(inherent) checked_rem_int(trait)
                 wrapping_rem_int overflowing_rem_int (deprecated; inherent, then the trait's provided methods)
                 rem_euclid_int checked_ wrapping_ overflowing_rem_euclid_int
                 div_euclid_int checked_ wrapping_ overflowing_div_euclid_int
  rem_r / rem_int_r => by-reference spellings of %
"""
from common import Stats, lay, trunc_div, opclass, panic_text, TRIVIAL_CLASSES

# (name, kind, which)   kind: p plain, c checked, s saturating, w wrapping, o overflowing
#                       which: t truncated remainder, r euclid remainder, q euclid quotient
FORMS = {
    "rem": [("rem", "p", "t"), ("rem_assign", "p", "t"), ("checked_rem", "c", "t"),
            ("rem_euclid", "p", "r"), ("checked_rem_euclid", "c", "r"),
            ("div_euclid", "p", "q"), ("checked_div_euclid", "c", "q"), ("saturating_div_euclid", "s", "q"),
            ("wrapping_div_euclid", "w", "q"), ("overflowing_div_euclid", "o", "q")],
    "rem_int": [("rem_int", "p", "t"), ("rem_int_assign", "p", "t"), ("checked_rem_int", "c", "t"),
                ("checked_rem_int_trait", "c", "t"),
                ("wrapping_rem_int", "w", "t"), ("overflowing_rem_int", "o", "t"),
                ("wrapping_rem_int_trait", "w", "t"), ("overflowing_rem_int_trait", "o", "t"),
                ("rem_euclid_int", "p", "r"), ("checked_rem_euclid_int", "c", "r"),
                ("wrapping_rem_euclid_int", "w", "r"), ("overflowing_rem_euclid_int", "o", "r"),
                ("div_euclid_int", "p", "q"), ("checked_div_euclid_int", "c", "q"),
                ("wrapping_div_euclid_int", "w", "q"), ("overflowing_div_euclid_int", "o", "q")],
    "rem_r": [("rem_ref%d" % i, "p", "t") for i in range(4)],
    "rem_int_r": [("rem_int_ref%d" % i, "p", "t") for i in range(4)],
}


def exact(L, op, A, Braw):
    """returns dict which -> exact raw result, or None for a zero divisor.
    Braw is the divisor as a raw integer on the value grid (integer divisors
    are scaled by 2^f with an unbounded intermediate)."""
    if Braw == 0:
        return None
    t = A - Braw * trunc_div(A, Braw)
    r = A % abs(Braw)
    q = (A - r) // Braw
    assert (A - r) == q * Braw
    return {"t": t, "r": r, "q": q << L.f}


class Mon(object):
    def __init__(self, prop, profile):
        self.prop = prop
        self.profile = profile
        self.st = Stats(prop, profile)

    def event(self, line, toks):
        st = self.st
        op = toks[0]
        forms = FORMS[op]
        L = lay(toks[1])
        a = int(toks[2], 16)
        b = int(toks[3], 16)
        outs = toks[5:]
        A = L.val(a)
        B = L.val(b)
        isint = op.startswith("rem_int")
        Braw = (B << L.f) if isint else B
        X = exact(L, op, A, Braw)
        if X is None:
            oc = "div0"
        else:
            oc = "q%s,r%s" % ("fits" if L.fits(X["q"]) else ("+" if X["q"] > L.hi else "-"),
                              "fits" if L.fits(X["r"]) else "over")
        ca = opclass(L, a)
        cb = opclass(L, b)
        st.cover(L.name, op, (ca, cb, oc), ca not in TRIVIAL_CLASSES and cb != "0", line)
        if X is not None:
            # the corner named in the property: Euclidean quotient fits although the
            # truncated quotient of the plain division does not
            tq = trunc_div(A << L.f, Braw)
            if L.fits(X["q"]) and not L.fits(tq):
                st.bump("euclid_fits_but_plain_quotient_overflows")
            if not L.fits(X["q"]):
                st.bump("euclid_quotient_overflows")
            if not L.fits(X["r"]):
                st.bump("euclid_remainder_overflows")
        if len(outs) == 1 and outs[0][0] == "P" and len(forms) > 1:
            outs = [outs[0]] * len(forms)
        if len(outs) != len(forms):
            raise ValueError("token count")
        for i, (name, kind, which) in enumerate(forms):
            t = outs[i]
            st.checks += 1
            if X is None:
                if kind == "c" and t != "N":
                    st.violation("C07:%s:zero-divisor-not-None" % name, line, "got %s" % t)
                continue
            R = X[which]
            fits = L.fits(R)
            w = "%x" % (R & L.mask)
            if kind == "c":
                exp = ("S:" + w) if fits else "N"
            elif kind == "s":
                exp = "V:%x" % (L.clamp(R) & L.mask)
            elif kind == "w":
                exp = "V:" + w
            elif kind == "o":
                exp = "O:%s:%d" % (w, 0 if fits else 1)
            else:
                if not fits:
                    continue  # plain form, result not representable: not pinned down (C11 compares profiles)
                exp = "V:" + w
            if t != exp:
                if t[0] == "P":
                    sig = "C07:%s:panic" % name
                    det = "panicked (%s); exact %s=%d fits=%s expected %s" % (panic_text(t), which, R, fits, exp)
                else:
                    sig = "C07:%s:wrong" % name
                    det = "got %s expected %s (exact %s=%d fits=%s; a=%d b=%d f=%d)" % (t, exp, which, R, fits, A, Braw, L.f)
                st.violation(sig + ":" + L.family(), line, det)


def allowed_checked_panics(toks):
    op = toks[0]
    forms = FORMS[op]
    L = lay(toks[1])
    A = L.val(int(toks[2], 16))
    B = L.val(int(toks[3], 16))
    Braw = (B << L.f) if op.startswith("rem_int") else B
    X = exact(L, op, A, Braw)
    if X is None:
        return set(i for i, f in enumerate(forms) if f[1] != "c")
    return set(i for i, f in enumerate(forms) if f[1] == "p" and not L.fits(X[f[2]]))
