"""C18 monitor: Wrapping<F> against the exact result reduced modulo 2^n.

Events (driver body/wrap.rs); six-form groups are
  w op r, &w op r, w op &r, &w op &r, w op= r, w op= &r   (or one P token):
  wneg L a / wnot L a             => 2 V
  wbin L op a b                   => 6 V      op 0 + 1 - 2 * 3 / 4 %
  wbit L op a b                   => 6 V      op 0 & 1 | 2 ^
  wint L op a i                   => 6 V      op 0 * 1 / 2 % by an integer
  wsh  L dir ty amt a             => 6 V      dir 0 << 1 >>; ty = one of the 12 amount types
  weu L a b / weui L a i          => div_euclid rem_euclid (wrapping forms)
  wsum L k x1..xk                 => sum, sum(&), product, product(&)
  wmeth L a n                     => 23 method results
  wfrom L kind a src              => Wrapping::from_num(src), Wrapping(a).to_num()
  wprog L a0 c:o ...              => value after every step of a short program
Parsing through Wrapping is judged on the `ps` events (monitor parsem with property C18).
"""
from fractions import Fraction
from common import Stats, lay, trunc_div, opclass, panic_text
import arith
import rem as remm
import round as roundm
from floats import decode_float, encode_float

SHIFT_BITS = [8, 16, 32, 64, 128, 64, 8, 16, 32, 64, 128, 64]
SHIFT_SIGNED = [True] * 6 + [False] * 6
BIN = ["add", "sub", "mul", "div", "rem"]
INTK = {0: (True, 8), 1: (True, 32), 2: (True, 64), 3: (True, 128), 4: (False, 8), 5: (False, 64), 6: (False, 128)}


def rhe(fr):
    n, d = fr.numerator, fr.denominator
    q, r = divmod(n, d)
    if 2 * r > d or (2 * r == d and (q & 1)):
        q += 1
    return q


def w_bin(L, op, A, B):
    """exact wrapped raw result of a binary Wrapping op; None = zero divisor"""
    if op == "rem":
        if B == 0:
            return None
        return (A - B * trunc_div(A, B)) & L.mask
    R = arith.exact(L, op, A, B)
    return None if R is None else R & L.mask


def w_int(L, op, A, I):
    if op == 0:
        return (A * I) & L.mask
    if I == 0:
        return None
    if op == 1:
        return trunc_div(A, I) & L.mask
    Braw = I << L.f
    return (A - Braw * trunc_div(A, Braw)) & L.mask


def shift(L, dir_, k, a):
    if dir_ == 0:
        return (a << k) & L.mask
    return (L.val(a) >> k) & L.mask


def amount(ty, raw128):
    m = SHIFT_BITS[ty]
    r = raw128 & ((1 << m) - 1)
    if SHIFT_SIGNED[ty] and r >> (m - 1):
        r -= 1 << m
    return r


class Mon(object):
    def __init__(self, prop, profile):
        self.prop = prop
        self.profile = profile
        self.st = Stats(prop, profile)

    def group(self, line, name, L, outs, exp, n, zero_div):
        """n-form group that must all equal exp (bit pattern) or legitimately panic on a zero divisor"""
        st = self.st
        st.checks += n
        if len(outs) == 1 and outs[0][0] == "P":
            if not zero_div:
                st.violation("C18:%s:panic:%s" % (name, L.family()), line, "panicked: %s (expected %x)" % (panic_text(outs[0]), exp if exp is not None else -1))
            return
        if zero_div:
            st.violation("C18:%s:zero-divisor-returned:%s" % (name, L.family()), line, "returned %s for a zero divisor" % outs[0]) if False else None
            return  # a returned value for a zero divisor is not pinned down
        if len(outs) != n:
            raise ValueError("token count")
        e = "V:%x" % exp
        for i, t in enumerate(outs):
            if t != e:
                st.violation("C18:%s:%s:%s" % (name, "panic" if t[0] == "P" else "wrong", L.family()), line,
                             "spelling %d: got %s expected %s" % (i, panic_text(t) if t[0] == "P" else t, e))
                return

    def single(self, line, name, L, t, exp_tok, may_panic=False):
        st = self.st
        st.checks += 1
        if t == exp_tok:
            return
        if t[0] == "P":
            if may_panic:
                return
            st.violation("C18:%s:panic:%s" % (name, L.family()), line, "panicked: %s (expected %s)" % (panic_text(t), exp_tok))
        else:
            st.violation("C18:%s:wrong:%s" % (name, L.family()), line, "got %s expected %s" % (t, exp_tok))

    def event(self, line, toks):
        st = self.st
        op = toks[0]
        if op[0] != "w":
            return
        L = lay(toks[1])
        sep = toks.index("=>")
        args = toks[2:sep]
        outs = toks[sep + 1:]
        h = lambda i: int(args[i], 16)
        cell = ()
        nontriv = True
        if op in ("wneg", "wnot"):
            a = h(0)
            exp = (-L.val(a)) & L.mask if op == "wneg" else (~a) & L.mask
            self.group(line, op[1:], L, outs, exp, 2, False)
            cell = (opclass(L, a), "ovf" if (op == "wneg" and not L.fits(-L.val(a))) else "fit")
            nontriv = a != 0
        elif op == "wbin":
            o, a, b = h(0), h(1), h(2)
            A, B = L.val(a), L.val(b)
            name = BIN[o]
            exp = w_bin(L, name, A, B)
            self.group(line, name, L, outs, exp, 6, exp is None)
            R = None if name == "rem" else arith.exact(L, name, A, B)
            oc = "div0" if exp is None else ("fit" if (R is None or L.fits(R)) else "ovf")
            cell = (name, opclass(L, a), opclass(L, b), oc)
            nontriv = a != 0 and b != 0
        elif op == "wbit":
            o, a, b = h(0), h(1), h(2)
            exp = (a & b) if o == 0 else ((a | b) if o == 1 else (a ^ b))
            self.group(line, ("and", "or", "xor")[o], L, outs, exp, 6, False)
            cell = (("and", "or", "xor")[o],)
        elif op == "wint":
            o, a, i = h(0), h(1), h(2)
            A, I = L.val(a), L.val(i)
            exp = w_int(L, o, A, I)
            name = ("mul_int", "div_int", "rem_int")[o]
            self.group(line, name, L, outs, exp, 6, exp is None)
            oc = "div0" if exp is None else ("fit" if o == 2 or L.fits(A * I if o == 0 else trunc_div(A, I)) else "ovf")
            cell = (name, opclass(L, a), oc)
            nontriv = a != 0 and i != 0
        elif op == "wsh":
            d, ty, raw, a = h(0), h(1), h(2), h(3)
            amt = amount(ty, raw)
            k = amt % L.n
            exp = shift(L, d, k, a)
            self.group(line, "shl" if d == 0 else "shr", L, outs, exp, 6, False)
            cell = ("shl" if d == 0 else "shr", "ty%d" % ty, "neg" if amt < 0 else ("big" if amt >= L.n else "in"))
            nontriv = a != 0
        elif op in ("weu", "weui"):
            a, b = h(0), h(1)
            A, B = L.val(a), L.val(b)
            Braw = (B << L.f) if op == "weui" else B
            X = remm.exact(L, op, A, Braw)
            sfx = "_int" if op == "weui" else ""
            if X is None:
                for t in outs:
                    st.checks += 1
                cell = ("div0",)
            else:
                # the D10 predicate recognises these two names
                for nm, which, t in (("wrapping_div_euclid" + sfx, "q", outs[0]), ("wrapping_rem_euclid" + sfx, "r", outs[1])):
                    st.checks += 1
                    e = "V:%x" % (X[which] & L.mask)
                    if t != e:
                        st.violation("C18:%s:%s:%s" % (nm, "panic" if t[0] == "P" else "wrong", L.family()), line,
                                     "got %s expected %s (exact %s = %d)" % (panic_text(t) if t[0] == "P" else t, e, which, X[which]))
                cell = ("qfit" if L.fits(X["q"]) else "qovf", "rfit" if L.fits(X["r"]) else "rovf")
            nontriv = a != 0 and b != 0
        elif op == "wsum":
            k = h(0)
            xs = [L.val(h(1 + i)) for i in range(k)]
            s = sum(xs) & L.mask
            p = None
            if k == 0:
                p = (1 << L.f) & L.mask
            else:
                acc = xs[0]
                for x in xs[1:]:
                    acc = L.val(((acc * x) >> L.f) & L.mask)
                p = acc & L.mask
            for nm, e, t in (("sum", s, outs[0]), ("sum_ref", s, outs[1]), ("product", p, outs[2]), ("product_ref", p, outs[3])):
                self.single(line, nm, L, t, "V:%x" % e)
            cell = ("k%d" % k, "sumovf" if not L.fits(sum(xs)) else "sumfit")
            nontriv = k > 1
        elif op == "wmeth":
            a, n = h(0), h(1)
            A = L.val(a)
            f = L.f
            fracmask = (1 << f) - 1
            exp = []
            # int / frac: pinned down only with an integer bit (as for C06)
            if L.n - f >= 1:
                exp += ["V:%x" % (((A >> f) << f) & L.mask), "V:%x" % (A & fracmask & L.mask)]
            else:
                exp += [None, None]
            exp.append("V:%x" % ((roundm.exact_int(L, A, "trunc") << f) & L.mask))
            for m in ("ceil", "floor", "round", "round_ties_to_even"):
                exp.append("V:%x" % ((roundm.exact_int(L, A, m) << f) & L.mask))
            if L.signed:
                sg = (1 if A > 0 else (-1 if A < 0 else 0))
                exp += ["V:%x" % (abs(A) & L.mask), "V:%x" % ((sg << f) & L.mask), "B:%d" % (A > 0), "B:%d" % (A < 0)]
            else:
                if a == 0:
                    np2 = 1
                else:
                    np2 = 1 << (a - 1).bit_length()
                exp += ["V:%x" % (np2 if np2 <= L.hi else 0), None, "B:%d" % (a != 0 and a & (a - 1) == 0), None]
            ones = bin(a).count("1")
            lz = L.n - a.bit_length()
            tz = L.n if a == 0 else (a & -a).bit_length() - 1
            r = n % L.n
            rotl = ((a << r) | (a >> (L.n - r))) & L.mask if r else a
            rotr = ((a >> r) | (a << (L.n - r))) & L.mask if r else a
            exp += ["V:%x" % ones, "V:%x" % (L.n - ones), "V:%x" % lz, "V:%x" % tz, "V:%x" % rotl, "V:%x" % rotr,
                    "V:%x" % a, "V:%x" % a, "V:%x" % (L.lo & L.mask), "V:%x" % (L.hi & L.mask), "V:%x" % (L.n - f), "V:%x" % f]
            names = ["int", "frac", "round_to_zero", "ceil", "floor", "round", "round_ties_to_even", "abs|next_power_of_two", "signum",
                     "is_positive|is_power_of_two", "is_negative", "count_ones", "count_zeros", "leading_zeros", "trailing_zeros",
                     "rotate_left", "rotate_right", "to_bits", "from_bits", "min_value", "max_value", "int_nbits", "frac_nbits"]
            if len(outs) != len(exp):
                raise ValueError("token count %d/%d" % (len(outs), len(exp)))
            for nm, e, t in zip(names, exp, outs):
                if e is None:
                    st.checks += 1
                    if t[0] == "P":
                        st.violation("C18:%s:panic:%s" % (nm, L.family()), line, "panicked: %s" % panic_text(t))
                    continue
                self.single(line, nm, L, t, e)
            fr = A & fracmask
            cell = (opclass(L, a), "int" if fr == 0 else ("tie" if f and fr == (1 << (f - 1)) else "frac"))
            nontriv = a != 0
        elif op == "wfrom":
            kind, a, src = h(0), h(1), h(2)
            A = L.val(a)
            if kind <= 6:
                isg, m = INTK[kind]
                iv = src - (1 << m) if (isg and src >> (m - 1)) else src
                self.single(line, "from_num(int)", L, outs[0], "V:%x" % ((iv << L.f) & L.mask))
                self.single(line, "to_num(int)", L, outs[1], "V:%x" % ((A >> L.f) & ((1 << m) - 1)))
                cell = ("int%d" % kind, "fit" if L.fits(iv << L.f) else "ovf")
            elif kind in (7, 8):
                w = 32 if kind == 7 else 64
                k, val = decode_float(w, src)
                if k == "fin":
                    R = rhe(val * (1 << L.f))
                    self.single(line, "from_num(float)", L, outs[0], "V:%x" % (R & L.mask))
                    cell = ("f%d" % w, "fit" if L.fits(R) else "ovf")
                else:
                    st.checks += 1
                    if outs[0][0] != "P":
                        st.violation("C18:from_num(float):nonfinite-accepted:%s" % L.family(), line, "returned %s for %s" % (outs[0], k))
                    cell = ("f%d" % w, k)
                self.single(line, "to_num(float)", L, outs[1], "V:%x" % encode_float(w, A, L.f))
            else:
                self.single(line, "from_num(bool)", L, outs[0], "V:%x" % (((1 if src else 0) << L.f) & L.mask))
                cell = ("bool",)
        elif op == "wprog":
            a0 = h(0)
            cur = a0
            steps = args[1:]
            st.extra["program_steps"] = st.extra.get("program_steps", 0) + len(steps)
            for idx, sp in enumerate(steps):
                c, o = sp.split(":")
                c = int(c, 16)
                o = int(o, 16)
                A, B = L.val(cur), L.val(o)
                zero = False
                if c in (0, 1, 2, 3, 4):
                    nxt = w_bin(L, BIN[c], A, B)
                elif c == 5:
                    nxt = (-A) & L.mask
                elif c == 6:
                    nxt = shift(L, 0, (o & 0xFFFFFFFF) % L.n, cur)
                elif c == 7:
                    k8 = o & 0xFF
                    k8 = k8 - 256 if k8 >> 7 else k8
                    nxt = shift(L, 1, k8 % L.n, cur)
                elif c in (8, 9):
                    nxt = w_int(L, c - 8, A, L.val(o & L.mask))
                elif c == 10:
                    nxt = cur & o & L.mask
                elif c == 11:
                    nxt = (cur | o) & L.mask
                elif c == 12:
                    nxt = (cur ^ o) & L.mask
                else:
                    nxt = (~cur) & L.mask
                st.checks += 1
                if idx >= len(outs):
                    st.violation("C18:program:missing-step:%s" % L.family(), line, "no outcome for step %d" % idx)
                    break
                t = outs[idx]
                if nxt is None:
                    if t[0] != "P":
                        pass  # zero divisor: a returned value is not pinned down; stop following the program
                    break
                if t != "V:%x" % nxt:
                    st.violation("C18:program:step-%s:%s:%s" % (("add", "sub_assign", "mul_ref", "div", "rem_assign_ref", "neg", "shl", "shr_assign_i8",
                                                                  "mul_int", "div_int_assign", "and_ref", "or_assign_ref", "xor", "not")[c],
                                                                 "panic" if t[0] == "P" else "wrong", L.family()), line,
                                 "step %d (code %x operand %x) from %x: got %s expected V:%x" % (idx, c, o, cur, panic_text(t) if t[0] == "P" else t, nxt))
                    break
                cur = nxt
            cell = ("len%d" % len(steps),)
        else:
            return
        st.cover(L.name, op, cell, nontriv, line)


def allowed_checked_panics(toks):
    """C11: Wrapping never panics on overflow; zero divisors and non-finite floats only"""
    return set()
